"""Seeded-mutant catalogue (thorough tier): small edits applied IN MEMORY to the source text handed to pyvc.
Each must make at least one obligation of its property fail (not be discharged) or push the function out of the verified
subset; a survivor means the contracts or the engine are too weak (exit 3).  'equivalent' entries document edits the
proof itself showed to be behaviour-preserving.   (property, module, old text, new text, note)"""
M = []


def m(prop, module, old, new, note='', equivalent=False): M.append(dict(prop=prop, module=module, old=old, new=new, note=note, equivalent=equivalent))


# ---- C13
m('C13', 'generator_shared', "i < len(pref_list) - 1:", "i <= len(pref_list) - 1:", 'writer opens a tie on the last entry')
m('C13', 'generator_shared', "elif in_tie and not ties_indicators[i]:", "elif in_tie and ties_indicators[i]:", 'writer close condition negated')
m('C13', 'fileIO', "            rank+=1\n            in_tie = False", "            in_tie = False", 'reader: no rank increment on close')
m('C13', 'fileIO', "elem_num = int(pref_list[i].replace(')', ''))", "elem_num = int(pref_list[i].replace('(', ''))", 'reader strips the wrong parenthesis')
# ---- C17
m('C17', 'generator_shared', "/(number_agents - 1))", "/(number_agents))", 'wrong denominator')
m('C17', 'generator_shared', "1.0 + float(", "float(", 'offset dropped')
# ---- C08 / C12
m('C08', 'generator_shared', "if i < remainder:", "if i <= remainder:", 'one share too many')
m('C08', 'generator_spa', "if lec_index < num_projects_for_lec_remainder", "if lec_index <= num_projects_for_lec_remainder")
m('C08', 'generator_spa', "project_lecturers.append(lec_index + 1)", "project_lecturers.append(lec_index)")
m('C08', 'generator_shared', "minpreflistlength, maxpreflistlength + 1)", "minpreflistlength, maxpreflistlength + 2)", 'list longer than pmax')
m('C12', 'generator_shared', "prefs_lists_agent2[agent1_num - 1].append(i + 1)", "prefs_lists_agent2[agent1_num - 1].append(i)")
m('C12', 'generator_shared', "prefs_lists_agent2[agent1_num - 1].append(i + 1)", "prefs_lists_agent2[agent1_num - 2].append(i + 1)")
m('C12', 'generator_spa', "lec = project_lecturers[proj - 1]", "lec = project_lecturers[proj]")
m('C12', 'generator_spa', "student_lec_list.append(lec_index + 1)", "student_lec_list.append(lec_index)")
# ---- C15
m('C15', 'instance_options_parser', "if args.maxpreflistlength > args.n2:", "if args.maxpreflistlength >= args.n2:")
m('C15', 'instance_options_parser', "if args.ties2 < 0.0 or args.ties2 > 1.0:", "if args.ties2 < 0.0 and args.ties2 > 1.0:")
m('C15', 'instance_options_parser', "            args.upperquotas = args.n1\n", "", 'the SM default removed again (defect 8)')
# ---- C16
m('C16', 'options_parser', "if ordering < 1 or ordering > len(opts):", "if ordering < 1 or ordering >= len(opts):")
m('C16', 'options_parser', "if not len(ordered_opts) == count:", "if False:")
m('C16', 'options_parser', "            not instance_options[Instance_options.TWOPL]):", "            instance_options[Instance_options.TWOPL]):")
m('C16', 'options_parser', "ordered_opts[arguments - 1] = (opt, None)", "ordered_opts[arguments - 2] = (opt, None)")
# ---- C06
m('C06', 'model', "elif pair.rank_student < assigned_pair_i.rank_student:", "elif pair.rank_student <= assigned_pair_i.rank_student:")
m('C06', 'model', "((not assigned_pair_i == None and assigned_pair_i.lecturer_index == pair.lecturer_index) or", "((False) or")
m('C06', 'model', "l_undersubscribed = l_num_assignments[pair.lecturer_index] < self.lec_upper_quotas", "l_undersubscribed = l_num_assignments[pair.lecturer_index] <= self.lec_upper_quotas")
m('C06', 'model', "if (not p_undersubscribed and ", "if (True and ", 'equivalent: a worse assignee of p_j is a worse assignee of l_k, so 3b already fires', equivalent=True)
# ---- C07
m('C07', 'brute_force_solver', "if size > self.optimal_size:", "if size >= self.optimal_size:")
m('C07', 'brute_force_solver', "for i in range(len(profile1) - 1, -1, -1):", "for i in range(len(profile1)):", 'moregen scans upward')
m('C07', 'brute_force_solver', "if self.optimal_size == -1:", "if self.optimal_size <= 0:")
m('C07', 'brute_force_solver', "[0] * self.model._get_max_rank()", "[0] * num_students", 'defect 6 again')
m('C07', 'brute_force_solver', "self.model.get_max_lec_upper_quota() * num_lecturers)", "self.model.get_max_lec_upper_quota())", 'initial total deviation too small')
m('C07', 'brute_force_solver', "self.optimal_max_lec_abs_diff = self.model.get_max_lec_upper_quota()", "self.optimal_max_lec_abs_diff = self.model.get_max_lec_upper_quota() - 1", 'initial maximum deviation too small')
m('C07', 'brute_force_solver', "if cost < self.optimal_maxsizemincost:", "if cost > self.optimal_maxsizemincost:")
m('C07', 'brute_force_solver', "self.optimal_maxsizemindegree = degree", "self.optimal_maxsizemindegree = degree - 1", 'stored value attained by no matching')
m('C07', 'brute_force_solver', "self.optimal_maxsizemindegree = self.model.num_projects", "self.optimal_maxsizemindegree = 0", 'equivalent: overwritten by the first valid assignment', equivalent=True)
# ---- C11
m('C11', 'model', "cost_st += pair.rank_student", "cost_st += 1")
m('C11', 'model', "if lpos > lneg:", "if lpos < lneg:")
m('C11', 'model', "        max_matched_rank = 0\n        for pair in pair_assignments:", "        max_matched_rank = 1\n        for pair in pair_assignments:")
m('C11', 'model', "rank_allocations[pair.rank_student - 1] += 1", "rank_allocations[pair.rank_student - 1] = 1")
m('C11', 'model', "return len(matching) - matching.count('0')", "return len(matching) - matching.count('0') - 1")
m('C11', 'model', "results += ('size: ' + str(self._get_matching_size(pair_assignments)) + '\\n')", "results += ('size: ' + str(self._get_degree(pair_assignments)) + '\\n')", 'wrong helper printed')
# ---- C10
m('C10', 'fileIO', "st_pr_pair.set_lecturer(project_lecturers[st_pr_pair.project_index])", "st_pr_pair.set_lecturer(project_lecturers[st_pr_pair.student_index])")
m('C10', 'fileIO', "student_ranks[(lec_num, simp_lec_prefs[i])] = simp_lec_ranks[i]", "student_ranks[(lec_num, simp_lec_prefs[i])] = i")
m('C10', 'model', "self.rank_lists[st_pr_pair.rank_student - 1].append(st_pr_pair)", "self.rank_lists[st_pr_pair.rank_student - 1] = [st_pr_pair]")
m('C10', 'model', "self.project_lists[st_pr_pair.project_index].append(st_pr_pair)", "self.project_lists[st_pr_pair.lecturer_index].append(st_pr_pair)")
# ---- C01 / C02 / C03 / C04 / C05 / C14 (LP)
m('C01', 'lp_solver', "lpSum([pair.lp_var for pair in pairs_row]) <= 1, ", "lpSum([pair.lp_var for pair in pairs_row]) <= 2, ")
m('C01', 'lp_solver', 'self.prob += (proj_vars <= uq, "proj_uq_{}".format(proj_index))', "pass")
m('C01', 'lp_solver', "pc_uq_exp += self.model.project_closures[proj_index] * uq", "pc_uq_exp += self.model.project_closures[proj_index] * lq")
m('C01', 'lp_solver', "for lec_index, pairs_row in enumerate(self.model.lecturer_lists):", "for lec_index, pairs_row in enumerate(self.model.project_lists):")
m('C02', 'lp_solver', "        if not self.solve_performed:\n            self.prob.solve(self.solver)", "        if len(self.optimisation_options) == 0:\n            self.prob.solve(self.solver)", 'defect 10 again')
m('C02', 'lp_solver', '                "obj_minsqcost", ', '                "obj_mincost", ', 'defect 4 again')
m('C03', 'lp_solver', "            self.perform_optimisation(obj, Optimisation_type.MINIMISE)\n            # Stop if this rank", "            self.perform_optimisation(obj, Optimisation_type.MAXIMISE)\n            # Stop if this rank", 'generous maximises')
m('C03', 'lp_solver', "up_to_postition_inclusive = 1 if len(additional_arguments) < 1", "up_to_postition_inclusive = 2 if len(additional_arguments) < 1", 'generous default cut-off')
m('C03', 'lp_solver', "sum_costs_exp += pair.lp_var * pair.rank_student**2 * student_multiplier", "sum_costs_exp += pair.lp_var * pair.rank_student*2 * student_multiplier")
m('C03', 'lp_solver', "lecturer_multiplier = 0 if len(cost_multipliers) < 2 else cost_multipliers[1]\n        self.info_string += '- optimisation: minimising sum of ranks", "lecturer_multiplier = 1 if len(cost_multipliers) < 2 else cost_multipliers[1]\n        self.info_string += '- optimisation: minimising sum of ranks", 'default lecturer weight')
m('C03', 'lp_solver', "            self.prob += (self.model.abs_lec_diff[lec_index] >= \n                self.model.lec_underload[lec_index])", "            pass", 'one side of the absolute value dropped')
m('C04', 'lp_solver', "            self.prob += objective_function >= objective_function.varValue", "            self.prob += objective_function <= objective_function.varValue", 'freeze direction')
m('C04', 'lp_solver', "            if opt == Optimisation_options.MINSIZE:\n                self.optimisation_minsize()", "            if opt == Optimisation_options.MINSIZE:\n                self.optimisation_maxsize()", 'wrong dispatch')
m('C05', 'lp_solver', "if (lec_pair.rank_lecturer <= aim_rank and", "if (lec_pair.rank_lecturer < aim_rank and")
m('C05', 'lp_solver', "not lec_pair.studentID == pair.studentID):", "True):")
m('C05', 'lp_solver', "while current_rank <= aim_rank and index < st_pref_length:", "while current_rank < aim_rank and index < st_pref_length:")
m('C05', 'lp_solver', "gamma_exp -= pair.beta_var", "pass", 'gamma without beta')
m('C14', 'lp_solver', "            if not LpStatus[self.prob.status] == self.model.OPTIMAL_PULP_STATUS:\n                return None\n\n    \n    def optimisation_maxsize", "            if LpStatus[self.prob.status] == self.model.OPTIMAL_PULP_STATUS:\n                return None\n\n    \n    def optimisation_maxsize", 'early exit inverted')
m('C14', 'model', "if self.pulp_status == self.NOTSOLVED_PULP_STATUS or total_s > self.time_limit: ", "if self.pulp_status == self.NOTSOLVED_PULP_STATUS and total_s > self.time_limit: ", 'Timeout test or -> and')
m('C14', 'model', "        if not self.pulp_status == self.OPTIMAL_PULP_STATUS: \n            return results", "        if self.pulp_status == self.NOTSOLVED_PULP_STATUS: \n            return results", 'matching shown for Infeasible')
# ---- Solver glue / variable creation (C01, C02, C14, C18)
m('C01', 'model', "self.lp_var = LpVariable(var_name, cat='Binary')", "self.lp_var = LpVariable(var_name, cat='Integer')", 'decision variable without the 0/1 domain')
m('C01', 'lp_solver', "        self.model.pulp_setup(\n            self.prob, \n            self.instance_options, \n            self.extra_constraints, \n            self.optimisation_options)", "        pass", 'no variables created')
m('C02', 'model', "var_name_beta = ('b' + var_name)", "var_name_beta = ('a' + var_name)", 'alpha and beta share a name')
m('C02', 'model', "                        Optimisation_options.LOADSUMBAL,\n                        Optimisation_options.MINCOSTLSB]:", "                        Optimisation_options.LOADSUMBAL]:", 'mincostlsb without the load-balancing variables')
m('C02', 'model', "                    lowBound = 0, \n                    upBound = lec_upper_quota, ", "                    lowBound = 0, \n                    upBound = lec_upper_quota - 1, ", 'deviation variable bound too small')
m('C14', 'solver', "            self.model.pulp_status = pulp_status", "            self.model.pulp_status = 'Optimal'", 'stored status is not the status of the run')
m('C14', 'solver', "self.model.time_limit = timeLimit", "self.model.time_limit = None", 'time limit not stored')
m('C18', 'lp_solver', '        self.prob = LpProblem("Student-Project-Allocator", LpMaximize)\n', '        self.prob = getattr(self.model, "prob", None) or LpProblem("Student-Project-Allocator", LpMaximize)\n        self.model.prob = self.prob\n', 'the problem object is reused by a second solve')
m('C01', 'model', "                self.project_lists[st_pr_pair.project_index].append(st_pr_pair)\n", "                self.project_lists[st_pr_pair.project_index].append(st_pr_pair)\n                self.project_lists[st_pr_pair.project_index].append(st_pr_pair)\n", 'a pair listed twice under its project: same element set, double weight in the capacity constraint')
m('C01', 'model', "                if pair.lp_var.varValue:\n                    pair_assignments.append(pair)\n        return pair_assignments", "                if pair.lp_var.varValue:\n                    pair_assignments.append(pair_row[0])\n        return pair_assignments", 'the wrong pair of the row is reported')
m('C10', 'model', "                (self.lecturer_lists[st_pr_pair.lecturer_index]\n                    .append(st_pr_pair))", "                (self.lecturer_lists[st_pr_pair.lecturer_index]\n                    .append(st_pr_pair))\n                if st_pr_pair.rank_student == 1: self.lecturer_lists[st_pr_pair.lecturer_index].append(st_pr_pair)", 'first choices listed twice under their lecturer')
m('C02', 'lp_solver', "            upBound = sum(self.model.lec_upper_quotas),", "            upBound = self.model.get_max_lec_upper_quota(),", 'defect 2 again: lsb bound too small')
m('C02', 'lp_solver', "            upBound = self.model.get_max_lec_upper_quota(),", "            upBound = self.model.get_max_lec_upper_quota() - 1,", 'lmb bound too small')
m('C02', 'lp_solver', "        self.add_constraints(\n            self.instance_options, \n            self.extra_constraints, \n            self.optimisation_options)\n\n        self.run_optimisations(self.optimisation_options)", "        self.run_optimisations(self.optimisation_options)\n        self.add_constraints(\n            self.instance_options, \n            self.extra_constraints, \n            self.optimisation_options)", 'criteria run before the matching constraints exist')
# ---- C18
m('C18', 'model', "        results += self.info_string + '\\n'", "        results += self.info_string + '\\n'\n        self.info_string = self.info_string + ' '", 'getter appends to a field')
m('C18', 'model', "        max_rank = self._get_max_rank()\n        rank_allocations = [0] * max_rank", "        max_rank = self._get_max_rank()\n        self.cached_max_rank = max_rank\n        rank_allocations = [0] * max_rank", 'getter caches into a new field')
# ---- C09
m('C09', 'generator_spa', "project_lecturers.append(lec_index + 1)", "project_lecturers.append(lec_index + 2)", 'lecturer ids out of range')
