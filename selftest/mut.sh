#!/bin/bash
# selftest/mut.sh <prop> <file-relative-to-repo> <python-regex-old> <new>   : run ./check on a scratch copy with one edit
set -e
D=$(mktemp -d /tmp/mrepo.XXXX)
rsync -a --exclude .git /repo/ $D/
python3 - "$D/$2" "$3" "$4" <<'PY'
import sys
p,old,new=sys.argv[1:4]
s=open(p).read()
assert s.count(old)>=1, 'pattern not found: '+old
s=s.replace(old,new,1); open(p,'w').write(s)
PY
cd /verif; PYVC_REPO=$D PYVC_EVIDENCE_DIR=$D/evidence ./check $1 --tier quick; rc=$?
rm -rf $D
echo "rc=$rc"
