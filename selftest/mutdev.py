"""In-memory mutant test for dev: python3-vt selftest/mutdev.py <module> <old> <new> <key...>"""
import sys, os
sys.path.insert(0, '/verif')
from pyvc import source, vc as vcmod, check
mod, old, new = sys.argv[1:4]; keys = sys.argv[4:]
src = open(os.path.join(source.REPO, source.MODULES[mod])).read()
assert old in src, 'pattern not found'
repo = source.Repo(overrides={mod: src.replace(old, new, 1)})
C, defs, classes, LEMMAS = check.load_all()
vcs, infos, und = check.generate('MUT', dict(functions=keys), repo, C, defs, classes, LEMMAS)
vcmod.discharge(vcs)
bad = [v for v in vcs if vcmod.status(v) != 'proved']
print('%d VCs, %d not proved%s' % (len(vcs), len(bad), '' if bad or und else '   *** MUTANT SURVIVED ***'))
for v in bad[:6]: print('   ', v.name, vcmod.status(v), (v.model or '')[:150])
for u in und: print('   UNDECIDED', u)
