"""Regenerates MANIFEST.json from contracts/props.py (run with python3-vt from /verif)."""
import json, sys, os
sys.path.insert(0, os.path.dirname(os.path.dirname(os.path.abspath(__file__))))
import contracts.props as props
ALL = ['C%02d' % i for i in range(1, 19)]
checks = []
for pid in sorted(props.PROPS):
    s = props.PROPS[pid]
    checks.append(dict(
        property_id=pid, quick_cmd='./check %s --tier quick' % pid, thorough_cmd='./check %s --tier thorough' % pid,
        evidence_file='/verif/evidence/%s.json' % pid, replay_cmd_template='./check --replay {path}', engine='pyvc',
        level_claimed=dict(category=s.get('level', 'proof'), text=s.get('level_text', ''), design_ref=s.get('design_ref', 'DESIGN.md section 7 ' + pid)),
        level_note=s.get('level_note', '; '.join(s.get('trusted', []))),
        technique=s.get('technique', 'contract-based deductive verification: VCs generated from the real Python AST + sidecar contracts, discharged by z3')))
na = [dict(property_id=p, reason=props.NOT_APPLICABLE.get(p, 'check not built yet (framework under construction)')) for p in ALL if p not in props.PROPS]
m = dict(version=1,
         setup_cmd="python3-vt -c 'import z3' && /venv/bin/python -c 'import matchingproblems, pulp'",
         hooks=dict(guard='MATCHINGPROBLEMS_VERIF', enable='none needed: verification reads /repo source on every run; replay injects faults from outside the repository',
                    baseline_off_cmd='cd /repo && /venv/bin/python -m pytest -q -p no:cacheprovider --timeout=900', source_commits=[], add_only=True),
         engines=[dict(name='pyvc', path='pyvc/', serves_properties=sorted(props.PROPS),
                       kind_free_text='own VC generator: symbolic execution of the real Python AST of /repo against sidecar contracts (pre/post, loop invariants, frames, ghost state), obligations discharged by z3 (cvc5 second back end in thorough); bounded stand-in harness on the real code under /venv/bin/python for replay')],
         checks=checks, not_applicable=na,
         notes=props.NOTES)
json.dump(m, open(os.path.join(os.path.dirname(os.path.dirname(os.path.abspath(__file__))), 'MANIFEST.json'), 'w'), indent=1)
print('MANIFEST.json: %d checks, %d not claimed' % (len(checks), len(na)))
