#!/bin/bash
# tools/thorough_some.sh <prop>... : thorough tier of the named checks, one line per run
for p in "$@"; do
  out=$(PYVC_EVIDENCE_DIR=${SWEEP_EVIDENCE:-/tmp/sweep_evidence} ./check $p --tier thorough 2>&1); rc=$?
  echo "$p rc=$rc $(echo "$out" | grep -E 'tier=' | cut -c1-200) $(echo "$out" | grep selftest | cut -c1-120)"
  echo "$out" | grep -E "UNDECIDED|VIOLATION|ERROR|Traceback|SURVIV|survivor" | head -5
done
