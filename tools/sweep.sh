#!/bin/bash
# tools/sweep.sh [n] : run every quick check n times (default 1) and print one line per run (stability sweep on the unchanged tree)
n=${1:-1}
for r in $(seq 1 $n); do
  for p in C01 C02 C03 C04 C05 C06 C07 C08 C09 C10 C11 C12 C13 C14 C15 C16 C17 C18; do
    out=$(PYVC_EVIDENCE_DIR=${SWEEP_EVIDENCE:-/tmp/sweep_evidence} ./check $p --tier quick 2>&1); rc=$?
    echo "run$r $p rc=$rc $(echo "$out" | grep -E 'tier=' | sed -E 's/.*: ([0-9]+) obligations, ([0-9]+) discharged, ([0-9]+) refuted, ([0-9]+) undecided; functions undecided: ([0-9]+).*; ([0-9.]+)s/obl=\1 ok=\2 ref=\3 und=\4 fund=\5 t=\6/')"
    echo "$out" | grep -E "UNDECIDED|VIOLATION|ERROR|Traceback" | head -3
  done
done
