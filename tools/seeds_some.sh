#!/bin/bash
# tools/seeds_some.sh <seed-id>... : run the named stored seeds against their properties on scratch copies of /repo; one line per seed
for id in "$@"; do
  prop=${id%%-*}
  out=$(tools/run_seed_scratch.sh $id $prop 2>&1)
  rc=$(echo "$out" | grep -o "exit=[0-9]*" | tail -1)
  echo "$id $prop $rc $(echo "$out" | grep -c VIOLATION) violation-lines; $(echo "$out" | grep -E 'failed obligation' | head -2 | tr '\n' ' ' | cut -c1-200)"
done
