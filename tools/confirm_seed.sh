#!/bin/bash
# tools/confirm_seed.sh <id> : confirm a sub-agent's seeded change in its scratch worktree /tmp/wt_<id>
id=$1; W=/tmp/wt_$id
cd $W || exit 1
cp -r seed_out /tmp/seed_$id
git checkout -q -- matchingproblems 2>/dev/null; git stash list | head -2
echo "--- without the change"
PYTHONPATH=$W /venv/bin/python -m pytest -q -p no:cacheprovider 2>&1 | tail -1
PYTHONPATH=$W timeout 900 /venv/bin/python /tmp/seed_$id/demo.py > /tmp/seed_$id/demo_without.log 2>&1; echo "demo exit (want 0): $?"
echo "--- with the change"
git apply /tmp/seed_$id/patch.diff || { echo "PATCH DOES NOT APPLY"; exit 1; }
git diff --stat | tail -2
PYTHONPATH=$W /venv/bin/python -m pytest -q -p no:cacheprovider 2>&1 | tail -1
PYTHONPATH=$W timeout 900 /venv/bin/python /tmp/seed_$id/demo.py > /tmp/seed_$id/demo_with.log 2>&1; echo "demo exit (want 1): $?"
tail -3 /tmp/seed_$id/demo_with.log | cut -c1-200
git checkout -q -- matchingproblems
