#!/bin/bash
# tools/sweep_thorough.sh [seeds...] : thorough tier of every check for each given VERIF_SEED (default 1 2), one line per run
seeds=${@:-1 2}
for s in $seeds; do
  for p in C01 C02 C03 C04 C05 C06 C07 C08 C09 C10 C11 C12 C13 C14 C15 C16 C17 C18; do
    out=$(VERIF_SEED=$s PYVC_EVIDENCE_DIR=${SWEEP_EVIDENCE:-/tmp/sweep_evidence} ./check $p --tier thorough 2>&1); rc=$?
    echo "seed$s $p rc=$rc $(echo "$out" | grep -E 'tier=' | sed -E 's/.*: ([0-9]+) obligations, ([0-9]+) discharged.*stand-in: ([0-9]+) evaluations, ([0-9]+) failures; ([0-9.]+)s/obl=\1 ok=\2 evals=\3 fails=\4 t=\5/') $(echo "$out" | grep selftest | sed -E 's/selftest: ([0-9]+) catalogued edits, ([0-9]+) killed.*/edits=\1 killed=\2/')"
    echo "$out" | grep -E "UNDECIDED|VIOLATION|ERROR|Traceback" | head -3
  done
done
