#!/bin/bash
# tools/seeds_round.sh <round-suffix> : run every stored seed of one round (seeded/*-<suffix>) against its property on a scratch copy of /repo
for d in seeded/*-$1/; do
  id=$(basename $d); prop=${id%%-*}
  echo "=== $id"; tools/run_seed_scratch.sh $id $prop 2>&1 | grep -v conda
done
