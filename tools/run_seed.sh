#!/bin/bash
# tools/run_seed.sh <seed-id> <prop> : apply a seeded change to /repo, run the quick check of <prop>, undo it straight afterwards
id=$1; prop=${2:-$1}
git -C /repo apply /verif/seeded/$id/patch.diff || exit 9
PYVC_EVIDENCE_DIR=/tmp/seed_evidence ./check $prop --tier quick 2>&1 | grep -E "tier=|VIOLATION|failed obligation|UNDECIDED|KNOWN|ERROR" | cut -c1-230 | head -12
echo "exit=${PIPESTATUS[0]}"
git -C /repo checkout -- . ; git -C /repo status --short | head -3
