#!/bin/bash
# tools/all_seeds.sh : run every stored seeded change against its property on a scratch copy of /repo (never touches /repo); one line per seed
for d in seeded/*/; do
  id=$(basename $d); prop=${id%%-*}
  out=$(tools/run_seed_scratch.sh $id $prop 2>&1)
  rc=$(echo "$out" | grep -o "exit=[0-9]*" | tail -1)
  echo "$id $prop $rc $(echo "$out" | grep -c VIOLATION) violation-lines; $(echo "$out" | grep -E 'failed obligation' | head -2 | tr '\n' ' ' | cut -c1-200)"
done
