#!/bin/bash
# tools/harmless.sh <prop> <file-relative-to-repo> <sed-expression> : apply a behaviour-preserving edit to a scratch copy of /repo and run the quick
# check there: it must still exit 0 (a check that alarms on a harmless edit is a false alarm)
prop=$1; file=$2; expr=$3; S=/tmp/scratch_harmless_$$
rm -rf $S; mkdir -p $S; (cd /repo && git archive HEAD | tar -x -C $S) || exit 9
sed -i -E "$expr" $S/$file; (cd $S && diff <(cd /repo && git show HEAD:$file) $file | head -6)
PYVC_REPO=$S PYVC_EVIDENCE_DIR=/tmp/seed_evidence ./check $prop --tier quick 2>&1 | grep -E "tier=|VIOLATION|NOTE|UNDECIDED|ERROR" | cut -c1-200 | head -6
echo "exit=${PIPESTATUS[0]}"; rm -rf $S
