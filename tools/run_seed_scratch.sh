#!/bin/bash
# tools/run_seed_scratch.sh <seed-id> <prop> : like run_seed.sh but on a scratch copy of /repo (PYVC_REPO), so /repo itself is never touched
id=$1; prop=${2:-$1}; S=/tmp/scratch_repo_$$
rm -rf $S; mkdir -p $S; (cd /repo && git archive HEAD | tar -x -C $S) || exit 9
(cd $S && patch -s -p1 < /verif/seeded/$id/patch.diff) || { rm -rf $S; exit 9; }
PYVC_REPO=$S PYVC_EVIDENCE_DIR=/tmp/seed_evidence ./check $prop --tier quick 2>&1 | grep -E "tier=|VIOLATION|failed obligation|UNDECIDED|KNOWN|ERROR" | cut -c1-230 | head -12
echo "exit=${PIPESTATUS[0]}"
rm -rf $S
