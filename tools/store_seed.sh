#!/bin/bash
# tools/store_seed.sh <worktree-id> <seed-id> : after tools/confirm_seed.sh, keep the confirmed change as seeded/<seed-id>/ and remove the scratch worktree
wt=$1; id=$2
mkdir -p seeded/$id && cp /tmp/seed_$wt/{patch.diff,demo.py,notes.md,demo_with.log,demo_without.log} seeded/$id/ 2>/dev/null
ls seeded/$id
git -C /repo worktree remove --force /tmp/wt_$wt; rm -rf /tmp/seed_$wt
