"""pyvc executor: verifies one repository function against its sidecar contract."""
import ast
import z3
from .values import *
from .core import *
from .expr import ExprMixin
from .stmt import StmtMixin
from .calls import CallMixin, SPECFUNS
from . import lemmas as lemmas_mod
from . import listsets

_parse_cache = {}


def parse_spec(src):
    if src not in _parse_cache:
        try: _parse_cache[src] = ast.parse(src.strip(), mode='eval').body
        except SyntaxError as ex: raise StaleContract('contract syntax: %s in %r' % (ex, src))
    return _parse_cache[src]


class Exec(ExprMixin, StmtMixin, CallMixin):
    def __init__(self, repo, contracts, schema, global_defs=None, models=None):
        self.repo = repo; self.contracts = contracts; self.schema = schema
        self.global_defs = global_defs or {}
        self.vcs = []; self.guards = []; self.spec_mode = False
        self.fsolver = z3.Solver(); self.fsolver.set('timeout', 400)
        # (path pruning only: 'unknown' counts as feasible, so this solver can never make a result unsound)
        self.inline_stack = []; self.old_stack = []; self.oid_counter = [0]
        self.globals = {}; self.ext_models = {}; self.stmt_models = {}; self.iter_models = {}; self.shapes = {}
        self.module_names = {'np', 'random', 'os', 'pulp', 'datetime', 'argparse', 'sys'}
        self.lemmas = lemmas_mod
        self.nexec = 0
        self.qdepth = 0
        self.pure_cache = {}
        self.qvars = []
        self.named_facts = {}
        self.param_cache = {}
        self.iter_snaps = []
        self.inlined = {}
        self.listsets = False
        for m in (models or []): m.install(self)

    # ---------------------------------------------------------------- schema
    def field_kind(self, cls, attr):
        k = self.schema.get(cls, {}).get(attr)
        return k[1] if isinstance(k, tuple) and k[0] == 'absent' else k

    def make_object(self, cls, p, name, overrides=None):
        """Fresh symbolic object of class cls from the schema."""
        oid = self.new_oid(); p.objs[oid] = {}
        fields = dict(self.schema.get(cls, {})); fields.update(overrides or {})
        for f, k in fields.items():
            if k is None or (isinstance(k, tuple) and k[0] == 'absent'): continue
            p.objs[oid][f] = self.make_value(k, name + '.' + f, p)
        return VObj(oid, cls)

    def make_value(self, k, name, p):
        if isinstance(k, tuple) and k[0] == 'obj': return self.make_object(k[1], p, name, k[2] if len(k) > 2 else None)
        if isinstance(k, tuple) and k[0] == 'const': return k[1]
        if isinstance(k, tuple) and k[0] == 'const_str': return VStr([k[1]])
        if isinstance(k, tuple) and k[0] == 'map': return VMap(z3.Array(name + '.has', I, z3.ArraySort(I, B)), z3.Array(name + '.val', I, z3.ArraySort(I, I)))
        if isinstance(k, tuple) and k[0] == 'statusstr': return VStr([('status', z3.Int(name + '.code'))])
        if isinstance(k, tuple) and k[0] == 'enumsym': return VEnumSym(k[1], z3.Int(name))
        if isinstance(k, tuple) and k[0] == 'dict': return VDict({VEnum(k[1], m): self.make_value(kk, name + '.' + m, p) for m, kk in k[2].items()})
        if isinstance(k, tuple) and k[0] == 'ext': return VExt(k[1])
        if isinstance(k, tuple) and k[0] == 'py': return VPy(z3.Const(name, Py))
        if isinstance(k, tuple) and k[0] == 'tuple': return VTuple([self.make_value(x, '%s.%d' % (name, i), p) for i, x in enumerate(k[1:])])
        if isinstance(k, tuple) and k[0] == 'clist': return VCList([self.make_value(k[1], '%s.%d' % (name, i), p) for i in range(k[2])])
        v = named_of_kind(name, k)
        p.assume(wf(v))
        return v

    # ---------------------------------------------------------------- specs
    def spec_eval(self, src, path):
        return self.truthy(self.spec_value(src, path))

    def spec_value(self, src, path):
        return self.spec_value_ast(parse_spec(src), path)

    def spec_value_ast(self, node, path):
        was = self.spec_mode; self.spec_mode = True; g = self.guards; self.guards = []
        try: return self.ev(node, path)
        finally: self.spec_mode = was; self.guards = g

    def spec_call(self, n, e, p):
        a = e.args
        if n in self.defs and len(self.defs[n]) == 3 and self.defs[n][2] == 'parametric':
            return self.parametric_call(n, a, p)
        if n in self.defs and len(self.defs[n]) == 3 and self.defs[n][2] == 'opaque':
            return self.opaque_call(n, a, p)
        if n in self.defs:
            params, body = self.defs[n][0], self.defs[n][1]
            if n in self.contract.get('state_independent', ()):
                # macro over parameters / argparse constants only: the same term on every path, evaluated once.
                # Only calls whose arguments mention nothing but (never reassigned) parameters and constants are cached.
                stable = self.contract.get('stable_names', ())
                if all((not isinstance(x, ast.Name)) or x.id in stable or x.id in self.defs or x.id in SPECFUNS or x.id in self.spec_ext
                       for arg in a for x in ast.walk(arg)):
                    key = (n, tuple(ast.dump(x) for x in a))
                    if key not in self.pure_cache:
                        q = p.fork(); vals = [self.ev(x, p) for x in a]
                        for nm, v in zip(params, vals): q.env[nm] = v
                        self.pure_cache[key] = self.ev(parse_spec(body), q)
                    return self.pure_cache[key]
            if len(params) != len(a): raise StaleContract('arity of spec function ' + n)
            q = p.fork(); vals = [self.ev(x, p) for x in a]
            q.env = dict(p.env)
            for nm, v in zip(params, vals): q.env[nm] = v
            return self.ev(parse_spec(body), q)
        if n == 'forall' and len(a) == 2 and isinstance(a[0], ast.Name) and isinstance(a[1], ast.Call) and isinstance(a[1].func, ast.Name) \
                and a[1].func.id == 'forall' and len(a[1].args) in (2, 3) and isinstance(a[1].args[0], ast.Name):
            # forall(a, forall(b, body[, trigger])) without ranges: ONE quantifier over both variables (a nested pair gives the outer
            # quantifier no usable trigger)
            b = a[1].args
            j1 = z3.Int('%s?%d' % (a[0].id, len(self.qvars))); j2 = z3.Int('%s?%d' % (b[0].id, len(self.qvars) + 1))
            q = p.fork(); q.env[a[0].id] = VInt(j1); q.env[b[0].id] = VInt(j2)
            self.qdepth += 2; self.qvars += [j1, j2]
            try:
                body = self.truthy(self.ev(b[1], q)); pat = None
                if len(b) == 3:
                    tv = self.ev(b[2], q); pat = [tv.t if hasattr(tv, 't') else tv.arr]
            finally: self.qdepth -= 2; self.qvars.pop(); self.qvars.pop()
            return VBool(z3.ForAll([j1, j2], body, patterns=pat) if pat else z3.ForAll([j1, j2], body))
        if n in ('forall', 'exists'):
            if not isinstance(a[0], ast.Name): raise StaleContract('quantifier variable')
            self.qdepth += 1
            # canonical bound-variable names (name + nesting depth): the same clause evaluated twice yields the same term
            j = z3.Int('%s?%d' % (a[0].id, len(self.qvars)))
            q = p.fork(); q.env[a[0].id] = VInt(j); self.qvars.append(j)
            try:
                pat = None
                if len(a) in (4, 5, 6):
                    lo = self.ev(a[1], p).t; hi = self.ev(a[2], p).t; rng = z3.And(lo <= j, j < hi); body = self.truthy(self.ev(a[3], q))
                    if len(a) >= 5:          # explicit trigger term(s): forall(i, lo, hi, body, trigger[, alternative trigger])   (instantiation hints only)
                        pat = []
                        for tx in a[4:]:
                            tv = self.ev(tx, q); pat.append(tv.arr if isinstance(tv, VList) else tv.t)
                elif len(a) in (2, 3) and n == 'forall' or len(a) == 2:
                    rng = z3.BoolVal(True); body = self.truthy(self.ev(a[1], q))
                    if len(a) == 3:
                        tv = self.ev(a[2], q); pat = [tv.t if hasattr(tv, 't') else tv.arr]
                else: raise StaleContract('quantifier arity')
            finally: self.qdepth -= 1; self.qvars.pop()
            if n == 'forall': return VBool(z3.ForAll([j], z3.Implies(rng, body), patterns=pat) if pat else z3.ForAll([j], z3.Implies(rng, body)))
            return VBool(z3.Exists([j], z3.And(rng, body)))
        if n == 'implies':
            c = self.truthy(self.ev(a[0], p))
            try: d = self.truthy(self.ev(a[1], p))
            except Undecided as ex:
                # the consequent mentions an object field that does not exist on this path (created only on other paths):
                # the claim cannot hold here, so the implication reduces to "the antecedent is false on this path"
                if 'has no field' not in str(ex): raise
                d = z3.BoolVal(False)
            return VBool(z3.Implies(c, d))
        if n == 'iff':
            return VBool(self.truthy(self.ev(a[0], p)) == self.truthy(self.ev(a[1], p)))
        if n == 'ite':
            return self.merge(self.truthy(self.ev(a[0], p)), self.ev(a[1], p), self.ev(a[2], p))
        if n == 'old':
            if not self.old_stack: raise StaleContract('old() outside a postcondition')
            o = self.old_stack[-1]; q = o.fork()
            for k, v in p.env.items():
                if k not in o.env: q.env[k] = v      # quantifier variables, result, ghost counters
            return self.ev(a[0], q)
        if n == 'prev':
            if not self.iter_snaps: raise StaleContract('prev() outside a loop-body lemma use')
            o = self.iter_snaps[-1]; q = o.fork()
            for k, v in p.env.items():
                if k not in o.env: q.env[k] = v
            return self.ev(a[0], q)
        if n == 'kind': return VInt(Tok.kind(self.ev(a[0], p).t))
        if n == 'value': return VInt(Tok.val(self.ev(a[0], p).t))
        if n == 'tok': return VTok(Tok.mk(self.ev(a[0], p).t, self.ev(a[1], p).t))
        if n == 'has':
            r = self.ev(a[0], p); nm = a[1].value
            return VBool(z3.Select(self.has_get(p, nm), r.t))
        if n in ('map_has', 'map_get'):
            m = self.ev(a[0], p); k1 = self.ev(a[1], p).t; k2 = self.ev(a[2], p).t
            if n == 'map_has': return VBool(z3.Select(z3.Select(m.has, k1), k2))
            return VInt(z3.Select(z3.Select(m.val, k1), k2))
        if n == 'attr_eq_old':
            # every Pair attribute of object r has the value it had at function entry
            r = self.ev(a[0], p).t; o = self.old_stack[-1]
            ts = []
            for at in SCHEMA:
                ts.append(z3.Select(self.heap_get(p, at), r) == z3.Select(self.heap_get(o, at), r))
                ts.append(z3.Select(self.has_get(p, at), r) == z3.Select(self.has_get(o, at), r))
            return VBool(z3.And(*ts))
        if n == 'alloc':
            r = self.ev(a[0], p)
            al = p.ghost.get('alloc')
            if al is None: al = z3.Array('ALLOC', I, B)
            return VBool(z3.Select(al, r.t))
        if n in ('elems', 'pelems', 'dupfree', 'appended'):
            L = self.ev(a[0], p)
            if not (isinstance(L, VList) and L.kind in listsets.KINDS): raise StaleContract('%s of a list of %s' % (n, L.kind if isinstance(L, VList) else L))
            if n == 'elems': return listsets.VSet(listsets.Elems(L.term()))
            if n == 'pelems': return listsets.VSet(listsets.PElems(L.term(), self.ev(a[1], p).t))
            if n == 'dupfree': return VBool(listsets.DupFree(L.term()))
            v = self.ev(a[1], p)
            return VList(L.len + 1, z3.Store(L.arr, L.len, v.t), 'int')
        if n in ('is_list', 'is_int', 'py_int', 'py_head', 'py_tail', 'py_len'):
            v = self.ev(a[0], p); L = list_sort('int')
            t = self.topy(v)
            if n == 'is_list': return VBool(Py.is_plist(t))
            if n == 'is_int': return VBool(Py.is_pint(t))
            if n == 'py_int': return VInt(Py.i(t))
            if n == 'py_head': return VInt(Py.head(t))
            if n == 'py_len': return VInt(1 + L.len(Py.tail(t)))
            return VList(L.len(Py.tail(t)), L.arr(Py.tail(t)), 'int')
        if n == 'opt_is_none': return VBool(Opt.is_none(self.toopt(self.ev(a[0], p))))
        if n == 'opt_val': return VInt(Opt.v(self.toopt(self.ev(a[0], p))))
        if n == 'real': return VReal(self.toreal(self.ev(a[0], p)))
        if n == 'printed_int':
            v = self.skeleton_after(self.ev(a[0], p), a[1].value)
            if len(v.atoms) == 1 and isinstance(v.atoms[0], tuple) and v.atoms[0][0] == 'int': return VInt(v.atoms[0][1])
            return VUnion([])
        if n == 'printed':
            v = self.skeleton_after(self.ev(a[0], p), a[1].value)
            if len(v.atoms) == 1 and isinstance(v.atoms[0], tuple) and v.atoms[0][0] in ('tuple', 'val'): return v.atoms[0][1]
            if len(v.atoms) == 1 and isinstance(v.atoms[0], tuple) and v.atoms[0][0] == 'int': return VInt(v.atoms[0][1])
            return VUnion([])
        if n == 'status_code':
            v = self.ev(a[0], p)
            if len(v.atoms) == 1 and isinstance(v.atoms[0], tuple) and v.atoms[0][0] == 'status': return VInt(v.atoms[0][1])
            raise StaleContract('status_code of a non-status string')
        if n == 'has_text':
            v = self.ev(a[0], p); lit = a[1].value
            return VBool(any(isinstance(x, str) and lit in x for x in v.atoms))
        if n == 'ENUM_len': return VInt(z3.Int('ENUM.len'))
        if n == 'rec':
            g = p.ghost.get('rec:' + a[0].value)
            if g is None: raise StaleContract('no recorded history ' + a[0].value)
            kind = self.rec_kinds.get(a[0].value, 'int')
            return VList(z3.IntVal(1 << 60), g, kind)
        if n == 'joined':
            v = self.ev(a[0], p)
            if isinstance(v, VStr) and len(v.atoms) == 1 and isinstance(v.atoms[0], tuple) and v.atoms[0][0] == 'join': return v.atoms[0][2]
            if isinstance(v, VList) and v.kind == 'tok': return v          # a line assembled token by token (declared 'linetoks'): ' '.join of its tokens
            raise StaleContract('joined() of a string that is not a join')
        if n == 'after':
            # after(s, 'label'): the atoms of skeleton s that follow the literal label, up to the next newline
            v = self.ev(a[0], p); lab = a[1].value
            return self.skeleton_after(v, lab)
        if n == 'lam':
            # lam(i, n, body): the list [body(0), ..., body(n-1)] as a named array (for instantiating sum lemmas)
            j = fresh(a[0].id, I); q = p.fork(); q.env[a[0].id] = VInt(j)
            hi = self.ev(a[1], p).t
            self.qvars.append(j)
            try: b = self.ev(a[2], q)
            finally: self.qvars.pop()
            t, r = self.num(b, 'lam', p, 0)
            if z3.is_select(t) and t.arg(1).eq(j) and not contains(t.arg(0), j): arr = t.arg(0)
            else: arr = self.lemmas.named_array(j, t, [v for v in self.qvars if contains(t, v)])
            return VList(hi, arr, 'real' if r else 'int')
        if n in ('Sum', 'Count', 'SumR'):
            # Sum(q, n, body): sum of body for q in [0, n)
            if not isinstance(a[0], ast.Name): raise StaleContract('Sum variable')
            j = fresh(a[0].id, I); q = p.fork(); q.env[a[0].id] = VInt(j)
            hi = self.ev(a[1], p).t
            self.qvars.append(j)
            try: b = self.ev(a[2], q)
            finally: self.qvars.pop()
            def lam(t):      # Lambda j. a[j]  is the array a itself (keeps terms small and syntactically equal)
                if z3.is_select(t) and t.arg(1).eq(j) and not contains(t.arg(0), j): return t.arg(0)
                return self.lemmas.named_array(j, t, [v for v in self.qvars if not v.eq(j) and contains(t, v)], count=(n == 'Count'))
            if n == 'Count': return VInt(self.lemmas.SumA(lam(z3.If(self.truthy(b), z3.IntVal(1), z3.IntVal(0))), hi))
            if n == 'SumR': return VReal(self.lemmas.SumR(lam(self.toreal(b)), hi))
            t, r = self.num(b, 'sum', p, 0)
            return VInt(self.lemmas.SumA(lam(t), hi))
        h = self.spec_ext.get(n)
        if h is not None: return h(self, e, p)
        raise StaleContract('unknown spec function ' + n)

    spec_ext = {}

    # ---------------------------------------------------------------- verification of one function
    def verify(self, key):
        """Generate all VCs of function `key`.  Returns (vcs, info)."""
        fn = self.repo.get(key); c = self.contracts.get(key)
        if c is None: raise StaleContract('no contract for ' + key)
        reset_fresh()        # names (and with them solver behaviour) do not depend on what was verified before
        self.fn = fn; self.contract = c; self.vcs = []; self.pure_cache = {}; self.inlined = {}
        self.listsets = 'listsets' in c.get('theory', [])
        self.rec_kinds = {nm: v[0] for lc in c.get('loops', {}).values() for nm, v in lc.get('record', {}).items()}
        self.defs = dict(self.global_defs); self.defs.update(c.get('defs', {}))
        nloops = len(fn.loop_nodes)
        for o in c.get('loops', {}):
            if o >= nloops: raise StaleContract('%s: contract names loop %d but the function has %d loops' % (key, o, nloops))
        p = Path()
        names = [a.arg for a in fn.node.args.args]
        if fn.node.args.vararg or fn.node.args.kwarg or fn.node.args.kwonlyargs: raise Undecided('star args')
        params = c.get('params', {})
        for i, n in enumerate(names):
            if i == 0 and n == 'self' and 'self' not in params:
                cls = fn.qualname.split('.')[0]
                if cls == 'Pair':
                    r = z3.Int('self'); p.env[n] = VRef(r); p.assume(r >= 0)
                else:
                    p.env[n] = self.make_object(cls, p, 'self', c.get('self_fields'))
                continue
            if n not in params: raise StaleContract('%s: parameter %s has no declared kind' % (key, n))
            p.env[n] = self.make_value(params[n], n, p)
        for g, k in c.get('ghost', {}).items():
            p.env[g] = self.make_value(k, g, p)
        for src in c.get('requires', []):
            only_for = src[2] if isinstance(src, tuple) and len(src) > 2 else None      # postconditions this precondition is meant for (hypothesis slicing only)
            name, src = (src[0], src[1]) if isinstance(src, tuple) else ('', src)
            t = self.spec_eval(src, p); p.assume(t)
            if only_for: p.tags[t.get_id()] = 'lemmafor:' + ','.join(only_for)
        if hasattr(self, 'entry_hook'): self.entry_hook(p, c)
        # vacuity guard: the precondition must be satisfiable
        self.vcs.append(VC('cover/requires', list(p.pc), z3.BoolVal(False), 'cover', fn.lines[0], fn.key, expect='sat'))
        pre = p.fork()
        self.nexec = 0
        self.old_stack = [pre]
        self.apply_lemmas('entry', p)
        res = self.exec_block(fn.node.body, [p])
        self.old_stack = []
        nret = 0
        for st, q, pay in res:
            if st == 'normal':
                st, pay = 'return', VNone(); self.apply_lemmas('return', q)
            if st == 'exit': self.apply_lemmas('exit', q)
            if st == 'return':
                nret += 1
                self.bind_result(q.env, pay)
                for nm, k in c.get('late_locals', {}).items():       # locals a postcondition mentions under a guard; unbound on early returns
                    if nm not in q.env: q.env[nm] = fresh_of_kind(nm + '?unbound', k)
                self.old_stack.append(pre)
                try:
                    for i, src in enumerate(c.get('ensures', [])):
                        name, src = src if isinstance(src, tuple) else ('ens%d' % i, src)
                        t = self.spec_eval(src, q)
                        v = VC('post/' + name, list(q.pc), t, 'post', fn.lines[1], fn.key)
                        # lemma instances declared for particular postconditions are left out (in the first attempt) when proving the others
                        v.drop = tuple(i for i, h in enumerate(q.pc) if q.tags.get(h.get_id(), '').startswith('lemmafor:') and name not in q.tags[h.get_id()][9:].split(','))
                        self.vcs.append(v)
                finally: self.old_stack.pop()
                if c.get('pure') or getattr(self, 'force_pure', False): self.frame_check(pre, q, fn)
                # list parameters are the caller's objects: a function may not change them unless its contract says so
                for nm in names:
                    a0, a1 = pre.env.get(nm), q.env.get(nm)
                    if isinstance(a0, VList) and nm not in c.get('modifies_params', ()):
                        if not isinstance(a1, VList): self.vcs.append(VC('frame/param-%s-unchanged' % nm, list(q.pc), z3.BoolVal(False), 'frame', fn.lines[1], fn.key))
                        elif not (a0.len.eq(a1.len) and a0.arr.eq(a1.arr)):
                            self.vcs.append(VC('frame/param-%s-unchanged' % nm, list(q.pc), a0.term() == a1.term(), 'frame', fn.lines[1], fn.key))
                if c.get('no_return'):
                    self.vcs.append(VC('post/must-exit', list(q.pc), z3.BoolVal(False), 'post', fn.lines[1], fn.key))
            elif st == 'exit':
                self.old_stack.append(pre)
                try:
                    for i, src in enumerate(c.get('exits', [])):
                        name, src = src if isinstance(src, tuple) else ('exit%d' % i, src)
                        t = self.spec_eval(src, q)
                        self.vcs.append(VC('exit/' + name, list(q.pc), t, 'post', fn.lines[1], fn.key))
                finally: self.old_stack.pop()
            else:
                raise Undecided('%s escapes the function' % st)
        self.add_axioms()
        info = dict(function=key, file=fn.path, lines=list(fn.lines), sha256=fn.sha256, stmts_executed=self.nexec,
                    paths=len(res), vcs=len(self.vcs), inlined=dict(self.inlined))
        return self.vcs, info


def wf(v):
    """Well-formedness every Python value has: list lengths (also of element lists) are non-negative."""
    if isinstance(v, VList):
        out = [v.len >= 0]
        if isinstance(v.kind, tuple) and v.kind[0] == 'list':
            x = fresh('wfx', I); e = wrap(v.kind, z3.Select(v.arr, x))
            out.append(z3.ForAll([x], z3.Implies(z3.And(0 <= x, x < v.len), wf(e))))
        return z3.And(*out)
    if isinstance(v, VTuple): return z3.And(*[wf(x) for x in v.items]) if v.items else z3.BoolVal(True)
    if isinstance(v, VText): return Text.nlines(v.t) >= 0
    return z3.BoolVal(True)


def _frame_check(self, pre, q, fn):
    """Read-only function: every field of every object that existed at entry, every Pair attribute array and the ghost LP state
    are the same at return (C18 frame obligations)."""
    def same(a, b):
        if a is b: return z3.BoolVal(True)
        if type(a) != type(b): return z3.BoolVal(False)
        if isinstance(a, (VInt, VBool, VReal, VRef, VOpt, VTok, VPy, VLpVar, VAff)): return a.t == b.t if not a.t.eq(b.t) else z3.BoolVal(True)
        if isinstance(a, VList): return z3.And(a.len == b.len, a.arr == b.arr) if not (a.len.eq(b.len) and a.arr.eq(b.arr)) else z3.BoolVal(True)
        if isinstance(a, VStr): return z3.BoolVal(a.atoms == b.atoms)
        if isinstance(a, VText): return a.t == b.t
        if isinstance(a, (VNone, VExt, VObj, VDict, VEnum)): return z3.BoolVal(True) if (isinstance(a, VNone) or a is b or getattr(a, 'oid', None) == getattr(b, 'oid', 0) or isinstance(a, (VExt, VDict, VEnum))) else z3.BoolVal(False)
        return z3.BoolVal(False)
    for oid, flds in pre.objs.items():
        now = q.objs.get(oid, {})
        for f, v in flds.items():
            t = same(v, now[f]) if f in now else z3.BoolVal(False)
            if not z3.is_true(t): self.vcs.append(VC('frame/field-%s-unchanged' % f, list(q.pc), t, 'frame', fn.lines[1], fn.key))
        for f in now:
            if f not in flds: self.vcs.append(VC('frame/no-new-field-%s' % f, list(q.pc), z3.BoolVal(False), 'frame', fn.lines[1], fn.key))
    for at in set(pre.heap) | set(q.heap):
        a, b = self.heap_get(pre, at), self.heap_get(q, at)
        if not a.eq(b): self.vcs.append(VC('frame/attribute-%s-unchanged' % at, list(q.pc), a == b, 'frame', fn.lines[1], fn.key))
        a, b = self.has_get(pre, at), self.has_get(q, at)
        if not a.eq(b): self.vcs.append(VC('frame/attribute-presence-%s-unchanged' % at, list(q.pc), a == b, 'frame', fn.lines[1], fn.key))
    for g in set(pre.ghost) | set(q.ghost):
        if g.startswith('rec:') or g.startswith('unbound:'): continue
        a, b = pre.ghost.get(g), q.ghost.get(g)
        if a is None or b is None or not (z3.is_expr(a) and z3.is_expr(b) and a.eq(b)):
            if a is not None and b is not None and z3.is_expr(a) and z3.is_expr(b): self.vcs.append(VC('frame/ghost-%s-unchanged' % g, list(q.pc), a == b, 'frame', fn.lines[1], fn.key))
            elif b is not None and a is None and g in ('feas', 'val', 'status', 'hist', 'solves'): pass      # lazily created symbolic default
    self.vcs.append(VC('frame/checked', list(q.pc), z3.BoolVal(True) == z3.BoolVal(True), 'frame', fn.lines[1], fn.key))


Exec.frame_check = _frame_check


def _parametric_call(self, n, a, p):
    """Macro evaluated ONCE over symbolic parameters (named arrays inside become functions of the parameters), then
    instantiated by substitution: two uses of the macro with different arguments are instances of one term, so sums
    written through it agree syntactically between a callee's postcondition and a caller's specification."""
    params, body = self.defs[n][0], self.defs[n][1]
    if len(params) != len(a): raise StaleContract('arity of spec function ' + n)
    vals = [self.ev(x, p) for x in a]
    hk = heap_key(p)
    ck = (n, hk, tuple(type(v).__name__ + str(getattr(v, 'kind', '')) for v in vals))
    if ck not in self.param_cache:
        q = p.fork(); q.env = {}; syms = []; zs = []
        for nm, v in zip(params, vals):
            c = fresh_like('%s$%s' % (n, nm), v); q.env[nm] = c; syms.append(c)
            zs += value_terms(c)
        saved = self.qvars; self.qvars = saved + zs
        try: res = self.ev(parse_spec(body), q)
        finally: self.qvars = saved
        self.param_cache[ck] = (syms, res, dict(p.heap), dict(p.has))
    syms, res, _, _ = self.param_cache[ck]
    pairs = []
    for c, v in zip(syms, vals):
        for x, y in zip(value_terms(c), value_terms(v)): pairs.append((x, y))
    return subst_value(res, pairs)


def _opaque_call(self, n, a, p):
    """Macro folded into a named predicate over its (integer / list) parameters; the rest of the state it reads must not change
    inside the function (checked: the key includes the identity of the heap arrays)."""
    params, body = self.defs[n][0], self.defs[n][1]
    vals = [self.ev(x, p) for x in a]
    hk = heap_key(p)
    ck = ('opaque', self.fn.key, n, body, hk, tuple(type(v).__name__ + str(getattr(v, 'kind', '')) for v in vals))
    if ck not in self.param_cache:
        q = p.fork(); syms = []; zs = []
        for nm, v in zip(params, vals):
            c = fresh_like('%s$%s' % (n, nm), v); q.env[nm] = c; syms.append(c); zs += value_terms(c)
        saved = self.qvars; self.qvars = saved + zs
        try: res = self.ev(parse_spec(body), q)
        finally: self.qvars = saved
        t = self.truthy(res) if not isinstance(res, VInt) else res.t
        # the symbol is identified by the BODY (over canonical parameter names), not by the heap version it was first evaluated in: a body
        # that does not read a changed heap array denotes the same predicate before and after the change
        canon = z3.substitute(t, *[(z, z3.Const('$opq%d' % i, z.sort())) for i, z in enumerate(zs)]) if zs else t
        F = self.lemmas.opaque_fn(('opaque-body', self.fn.key, n, canon.get_id(), tuple(str(z.sort()) for z in zs)), zs, t, n)
        self._opaque_keep = getattr(self, '_opaque_keep', []) + [canon]          # keep the term alive (ids are only unique among live terms)
        self.param_cache[ck] = (F, isinstance(res, VInt))
    F, is_int = self.param_cache[ck]
    args = []
    for v in vals: args += value_terms(v)
    return VInt(F(*args)) if is_int else VBool(F(*args))


Exec.opaque_call = _opaque_call


def heap_key(p):
    """Identity of the heap state a macro body may read: only arrays that differ from the entry symbols count (arrays are
    created lazily on first read, which must not change the key)."""
    from .expr import heap_sym, has_sym
    out = []
    for k, t in sorted(p.heap.items()):
        if not t.eq(heap_sym(k)): out.append((k, t.get_id()))
    for k, t in sorted(p.has.items()):
        if not t.eq(has_sym(k)): out.append(('has:' + k, t.get_id()))
    return tuple(out)


def value_terms(v):
    if isinstance(v, (VInt, VBool, VReal, VRef, VOpt, VTok, VPy)): return [v.t]
    if isinstance(v, VList): return [v.len, v.arr]
    raise StaleContract('parametric macro argument %r' % (v,))


def subst_value(v, pairs):
    if isinstance(v, VInt): return VInt(z3.substitute(v.t, *pairs))
    if isinstance(v, VBool): return VBool(z3.substitute(v.t, *pairs))
    if isinstance(v, VReal): return VReal(z3.substitute(v.t, *pairs))
    if isinstance(v, VOpt): return VOpt(z3.substitute(v.t, *pairs))
    if isinstance(v, VList): return VList(z3.substitute(v.len, *pairs), z3.substitute(v.arr, *pairs), v.kind)
    raise StaleContract('parametric macro result %r' % (v,))


Exec.parametric_call = _parametric_call


def _skeleton_after(self, v, lab):
    atoms = flatten_atoms(v.atoms)
    for i, at in enumerate(atoms):
        if isinstance(at, str) and lab in at:
            rest = at[at.index(lab) + len(lab):]
            out = []
            if '\n' in rest: return VStr([rest[:rest.index('\n')]])
            if rest: out.append(rest)
            for b in atoms[i + 1:]:
                if isinstance(b, str):
                    if '\n' in b: out.append(b[:b.index('\n')]); return VStr(out)
                    out.append(b)
                else: out.append(b)
            return VStr(out)
    return VStr([('absent', lab)])


def flatten_atoms(atoms):
    return list(atoms)


Exec.skeleton_after = _skeleton_after


def contains(t, x):
    seen = set(); stack = [t]
    while stack:
        u = stack.pop()
        if u.eq(x): return True
        if u.get_id() in seen: continue
        seen.add(u.get_id())
        if z3.is_app(u): stack.extend(u.children())
        elif z3.is_quantifier(u): stack.append(u.body())
    return False


def named_of_kind(name, k):
    """Like fresh_of_kind but with stable, readable names (function parameters)."""
    if k in ('int', 'enum'): return VInt(z3.Int(name))
    if k == 'var': return VLpVar(z3.Const(name, Var))
    if k == 'aff': return VAff(z3.Int(name))
    if k == 'bool': return VBool(z3.Bool(name))
    if k == 'real': return VReal(z3.Real(name))
    if k == 'ref': return VRef(z3.Int(name))
    if k == 'tok': return VTok(z3.Const(name, Tok))
    if k == 'optint': return VOpt(z3.Const(name, Opt))
    if k == 'py': return VPy(z3.Const(name, Py))
    if isinstance(k, tuple) and k[0] == 'list':
        return VList(z3.Int(name + '.len'), z3.Array(name + '.arr', I, sort_of(k[1])), k[1])
    if isinstance(k, tuple) and k[0] == 'str': return VStr([('opaque', name)])
    if k == 'text': return VText(z3.Const(name, Text))
    if isinstance(k, tuple) and k[0] == 'joinstr': return fresh_of_kind(name, k)
    if isinstance(k, tuple) and k[0] == 'map': return VMap(z3.Array(name + '.has', I, z3.ArraySort(I, B)), z3.Array(name + '.val', I, z3.ArraySort(I, I)))
    raise StaleContract('unknown declared kind %r for %s' % (k, name))


def _verify_lemma(self, name, L):
    """A lemma over contracts: symbolic variables, hypotheses (own clauses or clauses of other contracts,
    instantiated), goals.  Every goal is one VC."""
    class _F:      # pseudo function record
        key = 'lemma:' + name; qualname = name; module = 'lemma'; loops = {}; loop_nodes = []; lines = (0, 0); path = 'contracts'
        sha256 = ''
    reset_fresh()
    self.fn = _F(); self.contract = L; self.vcs = []; self.named_facts = {}
    if L.get('assumed'):      # an assumption, listed as such in evidence; nothing is proved here
        return [], dict(function='lemma:' + name, file='contracts', lines=[0, 0], sha256='', stmts_executed=0, paths=0, vcs=0, assumed=True)
    if 'raw' in L:
        # a lemma stated directly over z3 terms (set-level statements over an uninterpreted sort of valuations, which the
        # contract language has no syntax for): L['raw'](z3) -> [(name, [hypotheses], goal)]
        for nm, hyps, goal in L['raw'](z3):
            self.vcs.append(VC('cover/' + nm, list(hyps), z3.BoolVal(False), 'cover', 0, self.fn.key, expect='sat'))
            self.vcs.append(VC('goal/' + nm, list(hyps), goal, 'lemma', 0, self.fn.key))
        for v in self.vcs: v.quant = True
        return self.vcs, dict(function='lemma:' + name, file='contracts', lines=[0, 0], sha256='', stmts_executed=0, paths=1, vcs=len(self.vcs))
    self.defs = dict(self.global_defs); self.defs.update(L.get('defs', {}))
    p = Path()
    for n, k in L.get('vars', {}).items(): p.env[n] = self.make_value(k, n, p)
    self.named_facts['wf'] = z3.And(*p.pc) if p.pc else z3.BoolVal(True)      # list lengths of the lemma's variables are non-negative
    if L.get('identify_solution'):
        # T3 made explicit: "let nu be the valuation the solver reported" - solved(v) and nu(v) denote the same value in this lemma
        from . import models_lp
        p.ghost['val'] = models_lp.NU

    own_defs = self.defs

    class _Cl:
        def __init__(s, nm, src, q, defs): s.nm = nm; s.src = src; s.q = q; s.defs = defs

    def clauses(h):
        if isinstance(h, str): return [_Cl(None, h, p, own_defs)]
        if len(h) == 2: return [_Cl(h[0], h[1], p, own_defs)]       # (name, clause)
        which, key, binding = h[:3]
        overrides = h[3] if len(h) > 3 and h[3] else {}      # definitions substituted for uninterpreted spec symbols of that contract (e.g. the weight W)
        only = h[4] if len(h) > 4 else None                  # clause names (default: all)
        c = self.contracts[key]; q = p.fork(); q.env = {}
        for n, src in binding.items(): q.env[n] = self.spec_value(src, p)
        d = dict(self.global_defs); d.update(c.get('defs', {})); d.update(overrides)
        out = []
        for i, src in enumerate(c.get(which, [])):
            nm, src = (src[0], src[1]) if isinstance(src, tuple) else ('%s%d' % (which, i), src)
            if only is not None and nm not in only: continue
            cl = _Cl(nm, src, q, d); cl.overridden = bool(overrides); out.append(cl)
        if not out: raise StaleContract('lemma %s: %s has no %s clauses' % (name, key, which))
        return out

    def ev_clause(cl):
        q = cl.q.fork() if cl.q is not p else p
        if cl.q is not p:      # clauses of another contract see the lemma's current heap / pc but their own bindings
            q.pc = p.pc
        self.defs = cl.defs
        saved_cache = self.param_cache
        if getattr(cl, 'overridden', False): self.param_cache = {}      # parametric macros are re-evaluated under the substituted definitions
        try: return self.spec_eval(cl.src, q)
        finally: self.defs = own_defs; self.param_cache = saved_cache
    for h in L.get('hyps', []):
        for cl in clauses(h):
            t = ev_clause(cl); p.assume(t)
            if cl.nm is not None:      # named hypotheses can be cited by goals that are proved from named facts only
                self.named_facts[cl.nm if cl.q is p else '%s:%s' % (h[0], cl.nm)] = t
    self.vcs.append(VC('cover/hyps', list(p.pc), z3.BoolVal(False), 'cover', 0, self.fn.key, expect='sat'))
    for u in L.get('uses', []):
        mode = u[2] if len(u) > 2 else ''
        self.use_lemma(u[0], u[1], p, 'uses', conditional=(mode == 'if-applicable'), forall=(mode[7:] if mode.startswith('forall:') else None))
    if 'induct' in L:
        # claim(m) for all lo <= m <= hi, by induction on m: base and step are separate VCs (the induction
        # principle itself is part of the trusted engine)
        var, lo, hi, claim = L['induct']
        lo_t = self.spec_value(lo, p).t; hi_t = self.spec_value(hi, p).t
        q = p.fork(); q.env[var] = VInt(lo_t)
        self.vcs.append(VC('induct/base', list(p.pc) + [lo_t <= hi_t], self.spec_eval(claim, q), 'lemma', 0, self.fn.key))
        m = fresh(var, I); q = p.fork(); q.env[var] = VInt(m)
        hyp = self.spec_eval(claim, q)
        q2 = p.fork(); q2.env[var] = VInt(m + 1)
        self.vcs.append(VC('induct/step', list(p.pc) + [lo_t <= m, m < hi_t, hyp], self.spec_eval(claim, q2), 'lemma', 0, self.fn.key))
        p.assume(self.induct_fact(L, p))
    for g in L.get('goals', []):
        if isinstance(g, tuple) and g[0] == 'assume':      # hypotheses added after earlier goals (ordering matters)
            for cl in clauses(g[1]): p.assume(ev_clause(cl))
            continue
        if isinstance(g, tuple) and len(g) >= 3 and g[0] in ('requires', 'ensures') and isinstance(g[2], dict):
            facts = g[5] if len(g) > 5 else {}          # {clause name: [named facts]}: prove that clause from these facts only
            for cl in clauses(g):
                hy = list(p.pc)
                if cl.nm in facts:
                    missing = [f for f in facts[cl.nm] if f not in self.named_facts]
                    if missing: raise StaleContract('lemma %s: unknown fact %s' % (name, missing))
                    hy = [self.named_facts[f] for f in facts[cl.nm]]
                    # vacuity guard for a proof from named facts: those facts must be satisfiable together
                    self.vcs.append(VC('cover/facts-of/%s' % cl.nm, list(hy), z3.BoolVal(False), 'cover', 0, self.fn.key, expect='sat'))
                self.vcs.append(VC('goal/%s/%s' % (g[1].split(':')[1], cl.nm), hy, ev_clause(cl), 'lemma', 0, self.fn.key))
        else:
            nm, src = g[0], g[1]
            t = self.spec_eval(src, p)
            hyps = list(p.pc)
            if len(g) > 3:        # prove from the named facts only (keeps the query small and stable)
                missing = [f for f in g[3] if f not in self.named_facts]
                if missing: raise StaleContract('lemma %s: unknown fact %s' % (name, missing))
                hyps = [self.named_facts[f] for f in g[3]]
                if L.get('cover_named_facts'):      # vacuity guard for a proof from named facts: those facts must be satisfiable together
                    self.vcs.append(VC('cover/facts-of/' + nm, list(hyps), z3.BoolVal(False), 'cover', 0, self.fn.key, expect='sat'))
            self.vcs.append(VC('goal/' + nm, hyps, t, 'lemma', 0, self.fn.key))
            if len(g) > 2 and g[2] == 'then-assume':      # a chain: later goals may use earlier ones
                p.assume(t); self.named_facts[nm] = t
    self.add_axioms()
    return self.vcs, dict(function='lemma:' + name, file='contracts', lines=[0, 0], sha256='', stmts_executed=0, paths=1, vcs=len(self.vcs))


def _induct_fact(self, L, p):
    var, lo, hi, claim = L['induct']
    m = fresh(var, I); q = p.fork(); q.env[var] = VInt(m)
    return z3.ForAll([m], z3.Implies(z3.And(self.spec_value(lo, p).t <= m, m <= self.spec_value(hi, p).t), self.spec_eval(claim, q)))


def _use_lemma(self, name, binding, p, where, conditional=False, forall=None):
    """Instantiate a proved lemma: its hypotheses become obligations, its conclusions are assumed.
    forall='j': the binding may mention the integer j; the (conditional) instance is assumed for every j."""
    L = self.all_lemmas.get(name)
    if L is None: raise StaleContract('unknown lemma ' + name)
    q = p.fork(); q.env = {}
    jv = None
    if forall:
        conditional = True
        names = [x.strip() for x in forall.split(',')]
        jv = [fresh(nm, I) for nm in names]      # the quantified indices are visible to the binding expressions only
        penv_saved = {nm: p.env.get(nm) for nm in names}
        for nm, v in zip(names, jv): p.env[nm] = VInt(v); self.qvars.append(v)
    try:
        for n in L.get('vars', {}):
            if n not in binding: raise StaleContract('use of lemma %s does not bind %s' % (name, n))
            q.env[n] = self.spec_value(binding[n], p)
        saved = self.defs; self.defs = dict(self.global_defs); self.defs.update(L.get('defs', {}))
        try:
            hyps = []
            for i, h in enumerate(L.get('hyps', [])):
                if isinstance(h, tuple) and len(h) == 2: h = h[1]
                if not isinstance(h, str): raise StaleContract('lemma %s with contract-clause hypotheses cannot be instantiated' % name)
                t = self.spec_eval(h, q); hyps.append(t)
                if not conditional:
                    self.vcs.append(VC('lemma-pre/%s/%d@%s' % (name, i, where), list(p.pc), t, 'call-pre', 0, self.fn.key))
            # conditional use: (hypotheses => conclusions) is assumed, no obligation (the lemma simply does not apply otherwise)
            guard = (lambda t: z3.Implies(z3.And(*hyps), t) if hyps else t) if conditional else (lambda t: t)
            if jv is not None:
                g0 = guard; guard = lambda t: z3.ForAll(jv, g0(t))
            lf = getattr(self, '_lemma_for', None)
            if 'induct' in L:
                t = guard(self.induct_fact(L, q)); p.assume(t)
                if lf: p.tags[t.get_id()] = 'lemmafor:' + ','.join(lf)
                prev = self.named_facts.get(name + '/induct')          # every instance of this induction lemma used so far
                self.named_facts[name + '/induct'] = t if prev is None else z3.And(prev, t)
            for g in L.get('goals', []):
                if isinstance(g, tuple) and g[0] not in ('assume', 'requires', 'ensures') and isinstance(g[1], str):
                    t = guard(self.spec_eval(g[1], q)); p.assume(t)
                    if lf: p.tags[t.get_id()] = 'lemmafor:' + ','.join(lf)
                    self.named_facts[name + '/' + g[0]] = t
        finally:
            self.defs = saved
    finally:
        if jv is not None:
            for _ in jv: self.qvars.pop()
            for nm, v in penv_saved.items():
                if v is None: p.env.pop(nm, None)
                else: p.env[nm] = v


def _apply_lemmas(self, anchor, p):
    # instantiation of a precondition that was required for an ARBITRARY weight W (uninterpreted symbol: callers prove it without
    # knowing anything about W, so it holds for every weight function).  The clause is first re-proved in the current state with W
    # still uninterpreted (guards against the state having changed since entry), then assumed with W replaced by a definition.
    for cname, overrides in self.contract.get('instantiate', {}).get(anchor, []):
        src = next((x[1] for x in self.contract.get('requires', []) if isinstance(x, tuple) and x[0] == cname), None)
        if src is None: raise StaleContract('instantiate: no precondition named ' + cname)
        t = self.spec_eval(src, p)
        self.vcs.append(VC('instantiate/%s@%s/still-holds' % (cname, anchor), list(p.pc), t, 'assert', 0, self.fn.key))
        saved = self.defs; self.defs = dict(self.defs); self.defs.update(overrides)
        saved_cache = self.param_cache; self.param_cache = {}          # parametric macros must be re-evaluated under the new definition
        try: p.assume(self.spec_eval(src, p))
        finally: self.defs = saved; self.param_cache = saved_cache
    for u in self.contract.get('use_lemmas', {}).get(anchor, []):
        mode = u[2] if len(u) > 2 else ''
        self._lemma_for = u[3] if len(u) > 3 else None          # postcondition names this instance is meant for (hypothesis slicing)
        try: self.use_lemma(u[0], u[1], p, anchor, conditional=(mode == 'if-applicable'), forall=(mode[7:] if mode.startswith('forall:') else None))
        finally: self._lemma_for = None
    # intermediate assertions (proof cuts): proved here, then available to everything that follows on this path
    for i, src in enumerate(self.contract.get('asserts', {}).get(anchor, [])):
        name, src = src if isinstance(src, tuple) else ('%d' % i, src)
        t = self.spec_eval(src, p)
        self.vcs.append(VC('assert/%s/%s' % (anchor, name), list(p.pc), t, 'assert', 0, self.fn.key))
        p.assume(t)


def _add_axioms(self):
    """Definitional axioms (sum unfolding with one level of fuel, named arrays): added to the VCs that mention them."""
    for v in self.vcs:
        syms = set(self.lemmas.symbols(v.goal))
        for h in v.hyps: syms |= self.lemmas.symbols(h)
        sealed = tuple(self.contract.get('sealed', ())) if isinstance(self.contract, dict) else ()
        ax = self.lemmas.axioms_for(syms, sealed)
        # axioms may mention further named arrays (nested sums): close under dependencies
        for _ in range(3):
            more = set()
            for a in ax: more |= self.lemmas.symbols(a)
            if more <= syms: break
            syms |= more; ax = self.lemmas.axioms_for(syms, sealed)
        v.hyps.extend(ax)
        v.quant = '<q>' in syms or bool(ax)


Exec.add_axioms = _add_axioms
Exec.verify_lemma = _verify_lemma
Exec.induct_fact = _induct_fact
Exec.use_lemma = _use_lemma
Exec.apply_lemmas = _apply_lemmas
Exec.all_lemmas = {}
