"""Model of PuLP (trusted base T1-T3) under a ghost valuation NU : Var -> Int.

An LpAffineExpression is represented by its VALUE under NU, a constraint by its truth value, and the problem by the ghost
Bool term FEAS = conjunction of every variable domain and every constraint added so far.  NU is an uninterpreted array, so
what is proved about FEAS holds for every valuation; a solver outcome is a second valuation substituted for NU."""
import ast
import z3
from .values import *
from .core import *

NU = z3.Array('NU', Var, I)
FAMILIES = {}
NAMES = {}


def family(prefix):
    return FAMILIES.setdefault(prefix, len(FAMILIES))


def name_to_var(ex, name):
    """Variable identity from its name skeleton (T5: names are equal iff literal pieces and integers are equal)."""
    a = name.atoms
    ints = [x for x in a if isinstance(x, tuple) and x[0] == 'int']
    lits = ''.join(x if isinstance(x, str) else '#' for x in a)
    if any(isinstance(x, tuple) and x[0] != 'int' for x in a): raise Undecided('variable name %r' % (a,))
    if lits == '(#,#)': return Var.pairv(ints[0][1], ints[1][1])
    if lits == 'a(#,#)': return Var.alphav(ints[0][1], ints[1][1])
    if lits == 'b(#,#)': return Var.betav(ints[0][1], ints[1][1])
    if not ints: return Var.named(NAMES.setdefault(lits, len(NAMES)))
    if len(ints) == 1 and lits.endswith('#') and not lits[-2:-1].isdigit(): return Var.indexed(family(lits[:-1]), ints[0][1])
    raise Undecided('variable name shape %r' % lits)


VALS = z3.ArraySort(Var, I)
FEAS0 = z3.Function('FEAS0', VALS, B)          # the constraints present before the code under verification ran (as a predicate on valuations)
VAL0 = z3.Array('VAL0', Var, I)                 # values reported by the last solve
STATUS = {'Optimal': 1, 'Not Solved': 0, 'Infeasible': -1, 'Unbounded': -2, 'Undefined': -3}
_fn = [0]


def feas_get(p):
    if 'feas' not in p.ghost: p.ghost['feas'] = FEAS0(NU)
    return p.ghost['feas']


def fresh_feas(tag):
    _fn[0] += 1
    return z3.Function('FEAS%s!%d' % (tag, _fn[0]), VALS, B)(NU)


def g(p, name, default):
    if name not in p.ghost: p.ghost[name] = default
    return p.ghost[name]


def val_get(p): return g(p, 'val', VAL0)
def status_get(p): return g(p, 'status', z3.Int('STATUS0'))
def solves_get(p): return g(p, 'solves', z3.Int('SOLVES0'))
def hist_get(p): return g(p, 'hist', z3.Array('HIST0', I, I))


def lp_solve(ex, p, args, kwargs, e):
    """prob.solve(solver): the outcome is arbitrary (status code, reported values); it is appended to the ghost history.
    T3 (used by callers through solved_ok()): a status Optimal outcome satisfies every constraint present."""
    n = solves_get(p); st = fresh('status', I); val = fresh('VAL', VALS)
    p.assume(z3.Or(*[st == c for c in STATUS.values()]))
    p.ghost['hist'] = z3.Store(hist_get(p), n, st); p.ghost['solves'] = n + 1
    p.ghost['status'] = st; p.ghost['val'] = val
    p.ghost['feas_at_solve'] = feas_get(p)
    return VInt(st)


def lp_solve_mods(ex, n, p): return {('ghost', 'status'), ('ghost', 'val'), ('ghost', 'hist'), ('ghost', 'solves'), ('ghost', 'feas_at_solve')}


lp_solve.mods = lp_solve_mods


def lp_writelp(ex, p, args, kwargs, e): return VNone()


def lp_var_value(ex, v, p, line):
    return VInt(z3.Select(val_get(p), v.t))


def spec_solved(ex, e, p):
    v = ex.ev(e.args[0], p)
    return VInt(z3.Select(val_get(p), v.t))


def spec_status(ex, e, p): return VInt(status_get(p))
def spec_solves(ex, e, p): return VInt(solves_get(p))


def spec_hist(ex, e, p):
    i = ex.ev(e.args[0], p)
    return VInt(z3.Select(hist_get(p), i.t))


def spec_solution_ok(ex, e, p):
    """solution_ok(): the values reported by the last solve satisfy the constraints present at that solve (T3 for status Optimal)."""
    f = p.ghost.get('feas_at_solve', feas_get(p))
    return VBool(z3.substitute(f, (NU, val_get(p))))


def spec_feas_of_solution(ex, e, p):
    return VBool(z3.substitute(feas_get(p), (NU, val_get(p))))


def lp_variable(ex, p, args, kwargs, e):
    name = args[0]
    if not isinstance(name, VStr): raise Undecided('LpVariable name')
    v = name_to_var(ex, name)
    lo = kwargs.get('lowBound', args[1] if len(args) > 1 else VNone())
    hi = kwargs.get('upBound', args[2] if len(args) > 2 else VNone())
    cat = kwargs.get('cat', args[3] if len(args) > 3 else VStr(['Continuous']))
    cat = ''.join(cat.atoms)
    val = z3.Select(NU, v); dom = []
    if cat == 'Binary': dom = [val >= 0, val <= 1]
    elif cat == 'Integer':
        for b, f in ((lo, lambda t: val >= t), (hi, lambda t: val <= t)):
            if isinstance(b, VNone): continue
            t, r = ex.num(b, 'bound', p, e.lineno)
            if r: raise Undecided('real variable bound')
            dom.append(f(t))
    else: raise Undecided('variable category ' + cat)
    # FRESH (T3 precondition): a literal name must not have been used for another variable of this problem
    if z3.is_app(v) and v.decl().name() == 'named':
        key = 'used:' + ''.join(name.atoms)
        used = used_get(p, ''.join(name.atoms))
        ex.vc('no-raise/fresh-variable-name-%s@%d' % (''.join(name.atoms), e.lineno), p, z3.Not(used), line=e.lineno)
        p.ghost[key] = z3.BoolVal(True)
    p.ghost['feas'] = z3.And(feas_get(p), *dom) if dom else feas_get(p)
    return VLpVar(v)


def lp_variable_mods(ex, n, p): return {('ghost', 'feas')}


lp_variable.mods = lp_variable_mods


def val_of(ex, v, p, line):
    if isinstance(v, VAff): return v.t
    if isinstance(v, VLpVar): return z3.Select(NU, v.t)
    t, r = ex.num(v, 'lp-arith', p, line)
    if r: raise Undecided('real coefficient')
    return t


def lp_binop(ex, op, l, r, p, line):
    a = val_of(ex, l, p, line); b = val_of(ex, r, p, line)
    if isinstance(op, ast.Add): return VAff(a + b)
    if isinstance(op, ast.Sub): return VAff(a - b)
    if isinstance(op, ast.Mult):
        if isinstance(l, (VAff, VLpVar)) and isinstance(r, (VAff, VLpVar)): raise Undecided('product of LP expressions')
        return VAff(a * b)
    raise Undecided('LP operator')


def lp_compare(ex, op, l, r, p, line):
    a = val_of(ex, l, p, line); b = val_of(ex, r, p, line)
    if isinstance(op, ast.LtE): return VCons(a <= b)
    if isinstance(op, ast.GtE): return VCons(a >= b)
    if isinstance(op, ast.Eq): return VCons(a == b)
    raise Undecided('LP comparison')


def lp_sum(ex, p, args, kwargs, e):
    v = args[0]
    if isinstance(v, VList) and v.kind == 'var':
        j = fresh('ls', I)
        comp = getattr(v, 'comp', None)
        if comp is not None: body = z3.Select(NU, z3.substitute(comp[1], (comp[0], j)))
        else: body = z3.Select(NU, z3.Select(v.arr, j))
        return VAff(ex.lemmas.SumA(ex.lemmas.named_array(j, body, [x for x in ex.qvars if contains(body, x)]), v.len))
    if isinstance(v, VCList):
        return VAff(z3.Sum([val_of(ex, x, p, e.lineno) for x in v.items]) if v.items else z3.IntVal(0))
    raise Undecided('lpSum of %r' % (v,))


def contains(t, x):
    from .engine import contains as c
    return c(t, x)


def lp_affine(ex, p, args, kwargs, e):
    if not args: return VAff(0)
    return VAff(val_of(ex, args[0], p, e.lineno))


def used_get(p, name):
    """Has a variable of this literal name been created in the current problem?  (A new LpProblem has none.)"""
    if 'used:' + name in p.ghost: return p.ghost['used:' + name]
    return z3.BoolVal(False) if p.ghost.get('fresh_problem') is not None else z3.Bool('USED0_' + name)


def lp_problem(ex, p, args, kwargs, e):
    p.ghost['feas'] = z3.BoolVal(True)
    for k in [k for k in p.ghost if k.startswith('used:')]: p.ghost[k] = z3.BoolVal(False)
    p.ghost['fresh_problem'] = z3.BoolVal(True)
    return VExt('LpProblem')


def lp_add(ex, x, p, line):
    """prob += constraint | (constraint, name) | (0, "objective name")"""
    if isinstance(x, VTuple) and len(x.items) == 2: x = x.items[0]
    if isinstance(x, VCons): p.ghost['feas'] = z3.And(feas_get(p), x.t); return
    if isinstance(x, (VInt, VAff, VLpVar)): p.ghost['objective'] = val_of(ex, x, p, line); return
    raise Undecided('prob += %r' % (x,))


def spec_nu(ex, e, p):
    v = ex.ev(e.args[0], p)
    if not isinstance(v, VLpVar): raise StaleContract('nu() of a non-variable')
    return VInt(z3.Select(NU, v.t))


def spec_feas(ex, e, p): return VBool(feas_get(p))


def spec_used(ex, e, p): return VBool(used_get(p, e.args[0].value))


def spec_indexedvar(ex, e, p):
    return VLpVar(Var.indexed(family(e.args[0].value), ex.ev(e.args[1], p).t))


def spec_namedvar(ex, e, p):
    return VLpVar(Var.named(NAMES.setdefault(e.args[0].value, len(NAMES))))


def spec_pairvar(ex, e, p):
    s = ex.ev(e.args[0], p); q = ex.ev(e.args[1], p)
    return VLpVar(Var.pairv(s.t, q.t))


def spec_alphavar(ex, e, p):
    s = ex.ev(e.args[0], p); q = ex.ev(e.args[1], p)
    return VLpVar(Var.alphav(s.t, q.t))


def spec_betavar(ex, e, p):
    s = ex.ev(e.args[0], p); q = ex.ev(e.args[1], p)
    return VLpVar(Var.betav(s.t, q.t))


# ---- itertools.chain.from_iterable(rows) (T11): the concatenation of the rows, kept abstract:
#      FLEN(rows) elements FARR(rows)[q], each of which is some rows[i][c]; the sum over the concatenation is the
#      sum of the row sums (lemma FLAT/sum, an assumed consequence of "concatenates").
LLR = list_sort(('list', 'ref'))
FLEN = z3.Function('FLEN', LLR, I); FARR = z3.Function('FARR', LLR, z3.ArraySort(I, I))


def flat_list(ex, rows, p):
    t = rows.term(); L = list_sort('ref')
    q = fresh('fq', I); i = fresh('fi', I); c = fresh('fc', I)
    p.assume(FLEN(t) >= 0)
    p.assume(z3.ForAll([q], z3.Implies(z3.And(0 <= q, q < FLEN(t)),
             z3.Exists([i, c], z3.And(0 <= i, i < rows.len, 0 <= c, c < L.len(z3.Select(rows.arr, i)),
                                      z3.Select(FARR(t), q) == z3.Select(L.arr(z3.Select(rows.arr, i)), c))))))
    return VList(FLEN(t), FARR(t), 'ref')


def chain_from_iterable(ex, p, args, kwargs, e):
    rows = args[0]
    if not (isinstance(rows, VList) and rows.kind == ('list', 'ref')): raise Undecided('chain.from_iterable of %r' % (rows,))
    return flat_list(ex, rows, p)


def spec_flat(ex, e, p):
    rows = ex.ev(e.args[0], p)
    return VList(FLEN(rows.term()), FARR(rows.term()), 'ref')


def spec_ref(ex, e, p): return VRef(ex.ev(e.args[0], p).t)


WGT = z3.Function('WGT', I, I)      # W(x): an ARBITRARY integer weight of object x (uninterpreted: what is proved with it holds for every weight function)
def spec_W(ex, e, p): return VInt(WGT(ex.ev(e.args[0], p).t))
def spec_K0(ex, e, p): return VInt(z3.Int('K0'))          # an arbitrary integer constant (lemma-level parameter usable inside weight definitions)


def install(ex):
    ex.ext_models['chain.from_iterable'] = chain_from_iterable
    ex.module_names.add('chain')
    ex.spec_ext['flat'] = spec_flat; ex.spec_ext['ref'] = spec_ref; ex.spec_ext['W'] = spec_W; ex.spec_ext['K0'] = spec_K0
    ex.ext_models['LpVariable'] = lp_variable
    ex.ext_models['lpSum'] = lp_sum
    ex.ext_models['LpAffineExpression'] = lp_affine
    ex.ext_models['LpProblem'] = lp_problem
    ex.globals['LpMaximize'] = VExt('LpMaximize'); ex.globals['LpMinimize'] = VExt('LpMinimize')
    ex.lp_binop_impl = lp_binop; ex.lp_compare_impl = lp_compare; ex.lp_add_impl = lp_add
    ex.spec_ext['nu'] = spec_nu; ex.spec_ext['feas'] = spec_feas; ex.spec_ext['used'] = spec_used
    ex.spec_ext['alphavar'] = spec_alphavar; ex.spec_ext['betavar'] = spec_betavar
    ex.spec_ext['pairvar'] = spec_pairvar; ex.spec_ext['indexedvar'] = spec_indexedvar; ex.spec_ext['namedvar'] = spec_namedvar
    ex.spec_ext['solved'] = spec_solved; ex.spec_ext['status'] = spec_status; ex.spec_ext['solves'] = spec_solves
    ex.spec_ext['hist'] = spec_hist; ex.spec_ext['solution_ok'] = spec_solution_ok
    ex.spec_ext['objective'] = lambda ex_, e, p: VInt(g(p, 'objective', z3.Int('OBJ0')))
    ex.spec_ext['feas_at_solve'] = lambda ex_, e, p: VBool(p.ghost.get('feas_at_solve', z3.Bool('FAS0')))
    ex.ext_models['LpProblem.solve'] = lp_solve; ex.ext_models['LpProblem.writeLP'] = lp_writelp
    ex.ext_models['pulp.PULP_CBC_CMD'] = lambda ex, p, args, kwargs, e: VExt('cbc')
    ex.globals['LpStatus'] = VExt('LpStatus')
    ex.lp_var_value = lambda o, p, line: lp_var_value(ex, o, p, line)
    ex.fresh_feas = fresh_feas; ex.lp_status_get = status_get
