"""Expression evaluation (single-valued; forking happens only at statements)."""
import ast
import z3
from .values import *
from .core import *
from . import listsets



def heap_sym(attr):
    return z3.Array('H_' + attr, I, sort_of(SCHEMA[attr]))


def has_sym(attr):
    return z3.Array('HAS_' + attr, I, B)


class ExprMixin:
    # ---------------------------------------------------------------- helpers
    def vc(self, name, path, goal, kind='safety', line=0):
        if self.spec_mode: return
        if z3.is_true(goal): return
        self.vcs.append(VC(name, list(path.pc) + list(self.guards), goal, kind, line, self.fn.key))
        # assert-then-assume: execution continues only where the operation did not raise
        if self.guards: path.assume(z3.Implies(z3.And(*self.guards), goal))
        else: path.assume(goal)

    def truthy(self, v):
        if isinstance(v, VBool): return v.t
        if isinstance(v, VInt): return v.t != 0
        if isinstance(v, VReal): return v.t != 0
        if isinstance(v, VNone): return z3.BoolVal(False)
        if isinstance(v, VRef): return v.t != NULL
        if isinstance(v, VOpt): return z3.And(Opt.is_some(v.t), Opt.v(v.t) != 0)
        if isinstance(v, VOptR): return z3.And(OptR.is_some(v.t), OptR.v(v.t) != 0)
        if isinstance(v, VList): return v.len != 0
        if isinstance(v, VCList): return z3.BoolVal(len(v.items) > 0)
        if isinstance(v, VTuple): return z3.BoolVal(len(v.items) > 0)
        if isinstance(v, VStr):
            if all(isinstance(a, str) for a in v.atoms): return z3.BoolVal(len(v.atoms) > 0)
            if any(isinstance(a, str) or a[0] in ('int', 'real') for a in v.atoms): return z3.BoolVal(True)
            raise Undecided('truthiness of opaque string')
        if isinstance(v, (VEnum, VEnumSym, VObj, VExt, VDict)): return z3.BoolVal(True)
        if isinstance(v, VPy):
            return z3.Or(z3.And(Py.is_pint(v.t), Py.i(v.t) != 0), Py.is_plist(v.t))
        if isinstance(v, VUnion): return z3.Or(*[z3.And(c, self.truthy(x)) for c, x in v.alts])
        raise Undecided('truthiness of %r' % (v,))

    def num(self, v, what, path, line):
        """Return (term, is_real) of a numeric value; None / non-numbers are a TypeError obligation."""
        if isinstance(v, VInt): return v.t, False
        if isinstance(v, VUnion) and self.spec_mode:
            # value of a guarded union used as a number in a specification: the numeric alternatives, arbitrary otherwise
            out = fresh('undef', I)
            for c, x in v.alts:
                if isinstance(x, (VInt, VBool)): out = z3.If(c, self.num(x, what, path, line)[0], out)
            return out, False
        if isinstance(v, VEnumSym): return v.t, False
        if isinstance(v, VEnum): return z3.IntVal(self.repo.enums[v.cls][v.name]), False
        if isinstance(v, VAff): return v.t, False            # value of an LP expression under the ghost valuation
        if isinstance(v, VBool): return z3.If(v.t, z3.IntVal(1), z3.IntVal(0)), False
        if isinstance(v, VReal): return v.t, True
        if isinstance(v, VOpt):
            self.vc('no-raise/%s-None@%d' % (what, line), path, Opt.is_some(v.t), line=line)
            return Opt.v(v.t), False
        if isinstance(v, VOptR):
            self.vc('no-raise/%s-None@%d' % (what, line), path, OptR.is_some(v.t), line=line)
            return OptR.v(v.t), True
        if isinstance(v, VPy):
            self.vc('no-raise/%s-non-int@%d' % (what, line), path, Py.is_pint(v.t), line=line)
            return Py.i(v.t), False
        if isinstance(v, VNone):
            self.vc('no-raise/%s-None@%d' % (what, line), path, z3.BoolVal(False), line=line)
            return fresh('undef', I), False
        raise Undecided('numeric use of %r at line %d' % (v, line))

    def heap_get(self, path, attr):
        if attr not in path.heap: path.heap[attr] = heap_sym(attr)
        return path.heap[attr]

    def has_get(self, path, attr):
        if attr not in path.has: path.has[attr] = has_sym(attr)
        return path.has[attr]

    def read_attr_ref(self, ref, attr, path, line):
        if attr not in SCHEMA: raise Undecided('unknown Pair attribute ' + attr)
        self.vc('no-raise/attribute-of-None@%d' % line, path, ref.t != NULL, line=line)
        self.vc('no-raise/attribute-%s@%d' % (attr, line), path, z3.Select(self.has_get(path, attr), ref.t), line=line)
        t = z3.Select(self.heap_get(path, attr), ref.t)
        k = SCHEMA[attr]
        return VLpVar(t) if k == 'var' else VInt(t)

    def get_field(self, obj, attr, path, line):
        flds = path.objs[obj.oid]
        if attr in flds:
            if not self.spec_mode and (obj.oid, attr) in getattr(self, 'maybe_absent', ()):
                # created "if the callee created it" (calls.py): the code under verification may not rely on its existence
                raise Undecided('field %s may not exist after the call that can create it (line %d)' % (attr, line))
            return flds[attr]
        m = self.repo.find_method(obj.cls, attr)
        if m is not None: return VExt('boundmethod', (obj, m))
        self.vc('no-raise/attribute-%s@%d' % (attr, line), path, z3.BoolVal(False), line=line)
        raise Undecided('object %s has no field %s (line %d)' % (obj.cls, attr, line))

    # ---------------------------------------------------------------- expressions
    def ev(self, e, p):
        m = getattr(self, 'ev_' + type(e).__name__, None)
        if m is None: raise Undecided('expression %s at line %d' % (type(e).__name__, getattr(e, 'lineno', 0)))
        return m(e, p)

    def ev_Constant(self, e, p):
        v = e.value
        if isinstance(v, bool): return VBool(v)
        if isinstance(v, int): return VInt(v)
        if isinstance(v, float): return VReal(z3.RealVal(repr(v)))
        if isinstance(v, str): return VStr([v])
        if v is None: return VNone()
        raise Undecided('constant %r' % (v,))

    def ev_Name(self, e, p):
        if e.id in p.env:
            bound = p.ghost.get('unbound:' + e.id)
            if bound is not None: self.vc('no-raise/unbound-local-%s@%d' % (e.id, e.lineno), p, bound, line=e.lineno)
            return p.env[e.id]
        if e.id in self.globals: return self.globals[e.id]
        if e.id in self.repo.enums: return VExt('enumclass', e.id)
        if e.id in ('list', 'int', 'str', 'float'): return VExt('type', e.id)
        if self.spec_mode: raise StaleContract('contract mentions unknown name %r' % e.id)
        self.vc('no-raise/unbound-local-%s@%d' % (e.id, e.lineno), p, z3.BoolVal(False), line=e.lineno)
        raise Undecided('unbound name %s at line %d' % (e.id, e.lineno))

    def ev_Attribute(self, e, p):
        o = self.ev(e.value, p)
        if isinstance(o, VRef): return self.read_attr_ref(o, e.attr, p, e.lineno)
        if isinstance(o, VObj): return self.get_field(o, e.attr, p, e.lineno)
        if isinstance(o, VExt) and o.tag == 'enumclass':
            if e.attr not in self.repo.enums[o.data]: raise Undecided('enum member ' + e.attr)
            return VEnum(o.data, e.attr)
        if isinstance(o, VExt) and o.tag == 'LpProblem' and e.attr == 'status': return VInt(self.lp_status_get(p))
        if isinstance(o, VExt): return VExt('attr', (o, e.attr))
        if isinstance(o, VLpVar) and e.attr == 'varValue': return self.lp_var_value(o, p, e.lineno)
        if isinstance(o, VNone):
            self.vc('no-raise/attribute-of-None@%d' % e.lineno, p, z3.BoolVal(False), line=e.lineno)
            raise Undecided('attribute of None')
        raise Undecided('attribute %s of %r at line %d' % (e.attr, o, e.lineno))

    def ev_List(self, e, p):
        return VCList([self.ev(x, p) for x in e.elts])

    def ev_Tuple(self, e, p):
        return VTuple([self.ev(x, p) for x in e.elts])

    def ev_Dict(self, e, p):
        if not e.keys:       # {}: an empty map from (int, int) keys to ints (the reader's rank dictionaries)
            return VMap(z3.K(I, z3.K(I, z3.BoolVal(False))), z3.K(I, z3.K(I, z3.IntVal(0))))
        d = {}
        for k, v in zip(e.keys, e.values):
            kk = self.ev(k, p)
            if not isinstance(kk, VEnum): raise Undecided('dict key')
            d[kk] = self.ev(v, p)
        return VDict(d)

    def ev_IfExp(self, e, p):
        c = self.truthy(self.ev(e.test, p))
        self.guards.append(c)
        try: a = self.ev(e.body, p)
        finally: self.guards.pop()
        self.guards.append(z3.Not(c))
        try: b = self.ev(e.orelse, p)
        finally: self.guards.pop()
        return self.merge(c, a, b)

    def merge(self, c, a, b):
        if z3.is_true(c): return a
        if z3.is_false(c): return b
        if isinstance(a, VNone) and isinstance(b, VNone): return a
        if isinstance(a, VInt) and isinstance(b, VInt): return VInt(z3.If(c, a.t, b.t))
        if isinstance(a, VBool) and isinstance(b, VBool): return VBool(z3.If(c, a.t, b.t))
        if isinstance(a, VReal) or isinstance(b, VReal):
            return VReal(z3.If(c, self.toreal(a), self.toreal(b)))
        if isinstance(a, VRef) and isinstance(b, VRef): return VRef(z3.If(c, a.t, b.t))
        if isinstance(a, VPy) or isinstance(b, VPy):
            if isinstance(a, (VPy, VNone, VInt, VOpt)) and isinstance(b, (VPy, VNone, VInt, VOpt)):
                return VPy(z3.If(c, self.topy(a), self.topy(b)))
        if (isinstance(a, (VOpt, VNone, VInt)) and isinstance(b, (VOpt, VNone, VInt))) and (isinstance(a, (VOpt, VNone)) or isinstance(b, (VOpt, VNone))):
            return VOpt(z3.If(c, self.toopt(a), self.toopt(b)))
        if isinstance(a, VStr) and isinstance(b, VStr):
            if a.atoms == b.atoms: return a
            return VStr([('ite', c, a, b)])
        if isinstance(a, VText) and isinstance(b, VText): return VText(z3.If(c, a.t, b.t))
        if isinstance(a, VClosedToks) or isinstance(b, VClosedToks): raise Undecided('merge of a closed token line')
        if isinstance(a, VList) and isinstance(b, VList) and a.kind == b.kind:
            # one ite on the list value (not on length and array separately): list equalities then split on c only
            L = list_sort(a.kind); t = z3.If(c, a.term(), b.term())
            return VList(L.len(t), L.arr(t), a.kind)
        if isinstance(a, VTuple) and isinstance(b, VTuple) and len(a.items) == len(b.items):
            return VTuple([self.merge(c, x, y) for x, y in zip(a.items, b.items)])
        if isinstance(a, VCList) and isinstance(b, VCList):
            if len(a.items) != len(b.items): raise Undecided('cannot merge concrete lists of different lengths')
            return VCList([x if x is y else self.merge(c, x, y) for x, y in zip(a.items, b.items)])
        if a is b: return a
        if isinstance(a, VLpVar) and isinstance(b, VLpVar): return VLpVar(z3.If(c, a.t, b.t))
        if isinstance(a, (VEnum, VEnumSym)) and isinstance(b, (VEnum, VEnumSym)) and a.cls == b.cls:
            if isinstance(a, VEnum) and isinstance(b, VEnum) and a == b: return a
            code = lambda x: z3.IntVal(self.repo.enums[x.cls][x.name]) if isinstance(x, VEnum) else x.t
            return VEnumSym(a.cls, z3.If(c, code(a), code(b)))
        if isinstance(a, VUnion) or isinstance(b, VUnion) or type(a) != type(b):
            alts = []
            for cond, v in ((c, a), (z3.Not(c), b)):
                if isinstance(v, VUnion): alts += [(z3.And(cond, cc), x) for cc, x in v.alts]
                else: alts.append((cond, v))
            return self.compress_union(alts)
        raise Undecided('cannot merge %r / %r' % (a, b))

    def compress_union(self, alts):
        """Merge alternatives of the same shape; what remains are alternatives of genuinely different Python types."""
        groups = []
        for cond, v in alts:
            for g in groups:
                w = g[1]
                same = (type(w) == type(v) and not isinstance(v, (VTuple, VCList))) or \
                       (isinstance(v, VTuple) and isinstance(w, VTuple) and len(v.items) == len(w.items)) or \
                       (isinstance(v, (VPy, VNone)) and isinstance(w, (VPy, VNone))) or \
                       (isinstance(v, (VEnum, VEnumSym)) and isinstance(w, (VEnum, VEnumSym)))
                if same:
                    try:
                        g[1] = self.merge(cond, v, w); g[0] = z3.Or(g[0], cond); break
                    except Undecided: continue
            else:
                groups.append([cond, v])
        if len(groups) == 1 and alts and z3.is_true(z3.simplify(z3.Or(*[c for c, _ in alts]))): return groups[0][1]
        if len(groups) == 1 and len(alts) == 1: return VUnion([(alts[0][0], alts[0][1])]) if not z3.is_true(alts[0][0]) else alts[0][1]
        return VUnion([(z3.simplify(c), v) for c, v in groups])

    def topy(self, v):
        if isinstance(v, VPy): return v.t
        if isinstance(v, VNone): return Py.pnone
        if isinstance(v, VInt): return Py.pint(v.t)
        if isinstance(v, VOpt): return z3.If(Opt.is_none(v.t), Py.pnone, Py.pint(Opt.v(v.t)))
        if isinstance(v, VCList) and v.items and all(isinstance(x, VInt) for x in v.items):
            out = empty_list('int')
            for x in v.items[1:]: out = VList(out.len + 1, z3.Store(out.arr, out.len, x.t), 'int')
            return Py.plist(v.items[0].t, out.term())
        raise Undecided('topy %r' % (v,))

    def py_index(self, b, i, p, line):
        L = list_sort('int'); tl = Py.tail(b.t)
        self.vc('no-raise/subscript-non-list@%d' % line, p, Py.is_plist(b.t), line=line)
        n = 1 + L.len(tl)
        j = i.t if self.spec_mode else self.norm_index(n, i.t, p, line)
        return VInt(z3.If(j == 0, Py.head(b.t), z3.Select(L.arr(tl), j - 1)))

    def py_slice(self, b, c, p, line):
        L = list_sort('int'); tl = Py.tail(b.t)
        self.vc('no-raise/subscript-non-list@%d' % line, p, Py.is_plist(b.t), line=line)
        if c != 1: raise Undecided('slice [%d:] of an argument list' % c)
        return VList(L.len(tl), L.arr(tl), 'int')

    def py_len(self, v, p, line):
        L = list_sort('int')
        self.vc('no-raise/len-of-non-list@%d' % line, p, Py.is_plist(v.t), line=line)
        return VInt(1 + L.len(Py.tail(v.t)))

    def contains_term(self, t, x):
        from .engine import contains
        return contains(t, x)

    def map_key(self, i, p, line):
        a, b = i.items
        ta, _ = self.num(a, 'key', p, line); tb, _ = self.num(b, 'key', p, line)
        return ta, tb

    def toreal(self, v):
        if isinstance(v, VReal): return v.t
        if isinstance(v, VInt): return z3.ToReal(v.t)
        raise Undecided('toreal %r' % (v,))

    def toopt(self, v):
        if isinstance(v, VOpt): return v.t
        if isinstance(v, VNone): return Opt.none
        if isinstance(v, VInt): return Opt.some(v.t)
        raise Undecided('toopt %r' % (v,))

    def ev_UnaryOp(self, e, p):
        v = self.ev(e.operand, p)
        if isinstance(e.op, ast.Not): return VBool(z3.Not(self.truthy(v)))
        if isinstance(e.op, ast.USub):
            t, r = self.num(v, 'neg', p, e.lineno)
            return VReal(z3.simplify(-t)) if r else VInt(z3.simplify(-t))
        raise Undecided('unary op')

    def ev_BoolOp(self, e, p):
        """Python's and/or with short-circuit; values are taken as booleans unless every operand is a bool."""
        terms = []; pushed = 0
        try:
            for x in e.values:
                t = self.truthy(self.ev(x, p)); terms.append(t)
                self.guards.append(t if isinstance(e.op, ast.And) else z3.Not(t)); pushed += 1
        finally:
            for _ in range(pushed): self.guards.pop()
        return VBool(z3.And(*terms) if isinstance(e.op, ast.And) else z3.Or(*terms))

    def lp_binop(self, op, l, r, p, line): return self.lp_binop_impl(self, op, l, r, p, line)

    def ev_Compare(self, e, p):
        left = self.ev(e.left, p); out = []
        if len(e.ops) == 1:
            right = self.ev(e.comparators[0], p)
            if (isinstance(left, (VAff, VLpVar)) or isinstance(right, (VAff, VLpVar))) and not self.spec_mode:
                if True:
                    return self.lp_compare_impl(self, e.ops[0], left, right, p, e.lineno)
            return VBool(self.compare(e.ops[0], left, right, p, e.lineno))
        for op, ce in zip(e.ops, e.comparators):
            right = self.ev(ce, p)
            out.append(self.compare(op, left, right, p, e.lineno)); left = right
        return VBool(out[0] if len(out) == 1 else z3.And(*out))

    def compare(self, op, l, r, p, line):
        if isinstance(op, (ast.Eq, ast.NotEq, ast.Is, ast.IsNot)):
            t = self.equal(l, r, p, line)
            return t if isinstance(op, (ast.Eq, ast.Is)) else z3.Not(t)
        if isinstance(op, (ast.In, ast.NotIn)):
            t = self.contains(l, r, p, line)
            return t if isinstance(op, ast.In) else z3.Not(t)
        if isinstance(l, VUnion) or isinstance(r, VUnion):
            # comparable alternatives contribute their result; the others must be excluded (TypeError otherwise)
            out = z3.BoolVal(False)
            la = l.alts if isinstance(l, VUnion) else [(z3.BoolVal(True), l)]
            rs = r.alts if isinstance(r, VUnion) else [(z3.BoolVal(True), r)]
            for c1, x in la:
                for c2, y in rs:
                    ok = (isinstance(x, VTuple) and isinstance(y, VTuple)) or \
                         (isinstance(x, (VInt, VReal, VBool)) and isinstance(y, (VInt, VReal, VBool)))
                    if ok:
                        self.guards.append(z3.And(c1, c2))
                        try: out = z3.If(z3.And(c1, c2), self.compare(op, x, y, p, line), out)
                        finally: self.guards.pop()
                    else:
                        self.vc('no-raise/compare-%s-with-%s@%d' % (type(x).__name__, type(y).__name__, line), p, z3.Not(z3.And(c1, c2)), line=line)
            return out
        if isinstance(l, VTuple) and isinstance(r, VTuple):
            # lexicographic order of tuples
            if len(l.items) != len(r.items): raise Undecided('comparison of tuples of different length')
            strict = isinstance(op, (ast.Lt, ast.Gt)); lt = isinstance(op, (ast.Lt, ast.LtE))
            out = z3.BoolVal(not strict)
            for x, y in reversed(list(zip(l.items, r.items))):
                a, _ = self.num(x, 'compare', p, line); b, _ = self.num(y, 'compare', p, line)
                out = z3.Or(a < b if lt else a > b, z3.And(a == b, out))
            return out
        a, ra = self.num(l, 'compare', p, line); b, rb = self.num(r, 'compare', p, line)
        if ra != rb:
            a = a if ra else z3.ToReal(a); b = b if rb else z3.ToReal(b)
        return {ast.Lt: a < b, ast.LtE: a <= b, ast.Gt: a > b, ast.GtE: a >= b}[type(op)]

    def equal(self, l, r, p, line):
        if isinstance(l, VUnion): return z3.Or(*[z3.And(c, self.equal(x, r, p, line)) for c, x in l.alts])
        if isinstance(r, VUnion): return z3.Or(*[z3.And(c, self.equal(l, x, p, line)) for c, x in r.alts])
        if isinstance(r, VNone) and not isinstance(l, VNone): l, r = r, l
        if isinstance(l, VNone):
            if isinstance(r, VNone): return z3.BoolVal(True)
            if isinstance(r, VRef): return r.t == NULL
            if isinstance(r, VOpt): return Opt.is_none(r.t)
            if isinstance(r, VOptR): return OptR.is_none(r.t)
            if isinstance(r, VPy): return Py.is_pnone(r.t)
            return z3.BoolVal(False)
        if isinstance(l, VPy) or isinstance(r, VPy):
            if isinstance(l, (VPy, VInt, VOpt, VNone, VCList)) and isinstance(r, (VPy, VInt, VOpt, VNone, VCList)):
                return self.topy(l) == self.topy(r)
            return z3.BoolVal(False)
        if isinstance(l, VEnum) and isinstance(r, VEnum): return z3.BoolVal(l == r)
        if isinstance(l, VEnumSym) and isinstance(r, VEnum): l, r = r, l
        if isinstance(l, VEnum) and isinstance(r, VEnumSym):
            return r.t == self.repo.enums[l.cls][l.name] if l.cls == r.cls else z3.BoolVal(False)
        if isinstance(l, VEnumSym) and isinstance(r, VEnumSym): return l.t == r.t
        if isinstance(l, VRef) and isinstance(r, VRef): return l.t == r.t
        if isinstance(l, VLpVar) and isinstance(r, VLpVar): return l.t == r.t
        if isinstance(l, VStr) and isinstance(r, VStr): return self.str_equal(l, r)
        for a, b in ((l, r), (r, l)):      # token line == '': no token at all (every piece leaves at least one token or is empty)
            if isinstance(a, VList) and a.kind == 'tok' and isinstance(b, VStr) and not b.atoms: return a.len == 0
        if isinstance(l, VBool) and isinstance(r, VBool): return l.t == r.t
        if isinstance(l, VOpt) or isinstance(r, VOpt):
            if isinstance(l, (VOpt, VInt)) and isinstance(r, (VOpt, VInt)): return self.toopt(l) == self.toopt(r)
        if isinstance(l, VOptR) or isinstance(r, VOptR):
            if isinstance(l, (VOptR, VReal, VInt)) and isinstance(r, (VOptR, VReal, VInt)):
                f = lambda x: x.t if isinstance(x, VOptR) else OptR.some(self.toreal(x))
                return f(l) == f(r)
        if isinstance(l, (VInt, VBool, VReal, VAff)) and isinstance(r, (VInt, VBool, VReal, VAff)):
            a, ra = self.num(l, 'eq', p, line); b, rb = self.num(r, 'eq', p, line)
            if ra != rb:
                a = a if ra else z3.ToReal(a); b = b if rb else z3.ToReal(b)
            return a == b
        if isinstance(l, VTuple) and isinstance(r, VTuple):
            if len(l.items) != len(r.items): return z3.BoolVal(False)
            return z3.And(*[self.equal(x, y, p, line) for x, y in zip(l.items, r.items)]) if l.items else z3.BoolVal(True)
        if isinstance(l, VTok) and isinstance(r, VTok): return l.t == r.t
        if isinstance(l, VList) and isinstance(r, VList) and self.spec_mode and l.kind == r.kind:
            return l.term() == r.term()        # identity of (length, array): stronger than element-wise equality, used consistently
        if type(l) != type(r) and isinstance(l, (VInt, VStr, VTuple, VEnum, VCList, VList)) and \
                isinstance(r, (VInt, VStr, VTuple, VEnum, VCList, VList)):
            return z3.BoolVal(False)          # different Python types never compare equal (int/str/tuple/list/enum)
        raise Undecided('equality of %r and %r (line %d)' % (l, r, line))

    def atom_equal(self, a, b):
        if isinstance(a, str) or isinstance(b, str): return z3.BoolVal(a == b) if (isinstance(a, str) and isinstance(b, str)) else None
        if a[0] != b[0]: return None
        if a[0] in ('int', 'real', 'bool', 'opt'): return a[1] == b[1]
        if a[0] == 'tuple': return self.equal(a[1], b[1], None, 0)
        if a[0] == 'val':
            try: return self.equal(a[1], b[1], None, 0)
            except Undecided: return None
        if a[0] == 'pure' and a[1] == b[1] and len(a[2]) == len(b[2]):
            ts = []
            for x, y in zip(a[2], b[2]):
                if x is y: continue
                was = self.spec_mode; self.spec_mode = True
                try: ts.append(self.equal(x, y, None, 0))
                except Undecided: return None
                finally: self.spec_mode = was
            return z3.And(*ts) if ts else z3.BoolVal(True)
        return None

    def str_equal(self, l, r):
        if l.atoms == r.atoms: return z3.BoolVal(True)
        la, ra = l.atoms, r.atoms
        if any(len(x) == 1 and isinstance(x[0], tuple) and x[0][0] == 'shaped' for x in (la, ra)):
            # a listing line (template + integers): equal iff template and integers are equal (T5)
            sh = self.shapes['strline']
            return sh.encode(self, l) == sh.encode(self, r)
        if any(isinstance(a, tuple) and a[0] == 'absent' for a in la + ra): return z3.BoolVal(False)    # label not present in the text
        if len(la) == len(ra) and len(la) >= 1:          # atom-wise (sufficient; literals around numbers are not digits here: T5)
            ts = [self.atom_equal(a, b) for a, b in zip(la, ra)]
            if all(t is not None for t in ts): return z3.And(*ts)
        if all(isinstance(a, str) for a in la) and all(isinstance(a, str) for a in ra):
            return z3.BoolVal(''.join(la) == ''.join(ra))
        for a, b in ((la, ra), (ra, la)):      # X == ''  where X certainly contains a character
            if len(b) == 0:
                if any(isinstance(x, str) or x[0] in ('int', 'real') for x in a): return z3.BoolVal(False)
        if len(la) == 1 and len(ra) == 1 and isinstance(la[0], tuple) and isinstance(ra[0], tuple) and la[0][0] == ra[0][0] == 'int':
            return la[0][1] == ra[0][1]
        if len(la) == 1 and len(ra) == 1:      # LpStatus[code] == 'Optimal'
            from .models_lp import STATUS
            for a, b in ((la[0], ra[0]), (ra[0], la[0])):
                if isinstance(a, tuple) and a[0] == 'status' and isinstance(b, str):
                    return a[1] == STATUS[b] if b in STATUS else z3.BoolVal(False)
            if isinstance(la[0], tuple) and isinstance(ra[0], tuple) and la[0][0] == ra[0][0] == 'status': return la[0][1] == ra[0][1]
        if len(la) == 1 and len(ra) == 1:      # str(int) == 'digits'
            for a, b in ((la[0], ra[0]), (ra[0], la[0])):
                if isinstance(a, tuple) and a[0] == 'int' and isinstance(b, str):
                    if b.isdigit() and (b == '0' or not b.startswith('0')): return a[1] == int(b)
                    if b.startswith('-') and b[1:].isdigit() and not b[1:].startswith('0'): return a[1] == int(b)
                    return z3.BoolVal(False)
        raise Undecided('string equality %r == %r' % (la, ra))

    def contains(self, l, r, p, line):
        if isinstance(r, listsets.VSet):
            if isinstance(l, VRef): return z3.Select(r.t, l.t)
            t, _ = self.num(l, 'in', p, line); return z3.Select(r.t, t)
        if isinstance(r, VCList):
            ts = [self.equal(l, x, p, line) for x in r.items]
            return z3.Or(*ts) if ts else z3.BoolVal(False)
        if isinstance(l, VStr) and l.atoms in (['('], [')']):
            want = 1 if l.atoms == ['('] else 2
            if isinstance(r, VTok):
                if l.atoms[0] in r.removed: return z3.BoolVal(False)
                return Tok.kind(r.t) == want
        raise Undecided('membership test at line %d' % line)

    def ev_BinOp(self, e, p):
        l = self.ev(e.left, p); r = self.ev(e.right, p)
        return self.binop(e.op, l, r, p, e.lineno)

    def binop(self, op, l, r, p, line):
        if isinstance(op, ast.Add):
            if isinstance(l, VStr) and isinstance(r, VStr): return VStr(l.atoms + r.atoms)
            if isinstance(l, VStr) or isinstance(r, VStr):
                self.vc('no-raise/str-concat-type@%d' % line, p, z3.BoolVal(False), line=line)
                raise Undecided('str + non-str')
            if isinstance(l, VCList) and isinstance(r, VCList): return VCList(l.items + r.items)
        if isinstance(op, ast.Mult):
            if isinstance(l, VCList) and isinstance(r, VInt): return self.list_repeat(l, r, p, line)
            if isinstance(r, VCList) and isinstance(l, VInt): return self.list_repeat(r, l, p, line)
        if isinstance(l, VAff) or isinstance(r, VAff) or isinstance(l, VLpVar) or isinstance(r, VLpVar):
            return self.lp_binop(op, l, r, p, line)
        if isinstance(op, ast.Div):
            if isinstance(l, VList) and l.kind == 'real':     # numpy array / scalar
                s, _ = self.num(r, 'div', p, line); s = s if _ else z3.ToReal(s)
                self.vc('no-raise/zero-division@%d' % line, p, s != 0, line=line)
                j = z3.Int('divj')
                return VList(l.len, z3.Lambda([j], z3.Select(l.arr, j) / s), 'real')
        a, ra = self.num(l, 'arith', p, line); b, rb = self.num(r, 'arith', p, line)
        if isinstance(op, ast.Div):
            self.vc('no-raise/zero-division@%d' % line, p, b != 0, line=line)
            if not ra and not rb: return VDiv(a, b)
            a = a if ra else z3.ToReal(a); b = b if rb else z3.ToReal(b)
            return VReal(a / b)
        if isinstance(op, (ast.Mod, ast.FloorDiv)):
            if ra or rb: raise Undecided('real mod/floordiv')
            self.vc('no-raise/zero-division@%d' % line, p, b != 0, line=line)
            if not self.spec_mode:
                self.vc('subset/positive-divisor@%d' % line, p, b > 0, kind='subset', line=line)
            return VInt(a % b) if isinstance(op, ast.Mod) else VInt(a / b)
        if isinstance(op, ast.Pow):
            if z3.is_int_value(b) and b.as_long() == 2: return VReal(a * a) if ra else VInt(a * a)
            raise Undecided('power other than 2')
        if ra != rb:
            a = a if ra else z3.ToReal(a); b = b if rb else z3.ToReal(b)
        f = {ast.Add: lambda x, y: x + y, ast.Sub: lambda x, y: x - y, ast.Mult: lambda x, y: x * y}.get(type(op))
        if f is None: raise Undecided('binary operator %s' % type(op).__name__)
        return VReal(f(a, b)) if (ra or rb) else VInt(f(a, b))

    def list_repeat(self, lst, n, p, line):
        if len(lst.items) != 1: raise Undecided('[a, b] * n')
        x = lst.items[0]
        if z3.is_int_value(n.t) and isinstance(x, (VCList, VObj, VList)): raise Undecided('[mutable] * n')
        if z3.is_int_value(n.t) and 0 <= n.t.as_long() <= 64 and not self.contract.get('symbolic_repeat'):
            return VCList([x] * n.t.as_long())
        ln = z3.If(n.t >= 0, n.t, 0)
        if isinstance(x, VInt): return VList(ln, z3.K(I, x.t), 'int')
        if isinstance(x, VReal): return VList(ln, z3.K(I, x.t), 'real')
        if isinstance(x, VBool): return VList(ln, z3.K(I, x.t), 'bool')
        if isinstance(x, VNone): return VList(ln, z3.K(I, Opt.none), 'optint')
        if isinstance(x, VStr):
            k, t = self.str_to_elem(x, None)
            return VList(ln, z3.K(I, t), k)
        raise Undecided('[%r] * n' % (x,))

    def ev_Subscript(self, e, p):
        b = self.ev(e.value, p)
        if isinstance(e.slice, ast.Slice): return self.slice(b, e.slice, p, e.lineno)
        i = self.ev(e.slice, p)
        return self.index(b, i, p, e.lineno)

    def norm_index(self, b_len, i, p, line):
        """Python index normalisation + IndexError obligation.  Returns the non-negative index term."""
        self.vc('no-raise/index@%d' % line, p, z3.And(i >= -b_len, i < b_len), line=line)
        if z3.is_int_value(i) and i.as_long() >= 0: return i
        return z3.If(i >= 0, i, i + b_len)

    def index(self, b, i, p, line):
        if isinstance(b, VExt) and b.tag == 'LpStatus':
            if not isinstance(i, VInt): raise Undecided('LpStatus key')
            return VStr([('status', i.t)])
        if isinstance(b, VDict):
            if isinstance(i, VEnum) and i in b.d: return b.d[i]
            self.vc('no-raise/key@%d' % line, p, z3.BoolVal(False), line=line)
            raise Undecided('dict key at line %d' % line)
        if isinstance(b, VMap):
            if not (isinstance(i, VTuple) and len(i.items) == 2): raise Undecided('map key')
            k1, k2 = self.map_key(i, p, line)
            self.vc('no-raise/key@%d' % line, p, z3.Select(z3.Select(b.has, k1), k2), line=line)
            return VInt(z3.Select(z3.Select(b.val, k1), k2))
        if isinstance(i, VOpt) or isinstance(i, VNone):
            t, _ = self.num(i, 'index', p, line); i = VInt(t)
        if not isinstance(i, VInt):
            if isinstance(i, VRef) and self.spec_mode: i = VInt(i.t)          # summands indexed by object reference (specs only)
            elif isinstance(i, VBool): i = VInt(z3.If(i.t, 1, 0))
            else: raise Undecided('index %r' % (i,))
        if isinstance(b, VList):
            j = i.t if self.spec_mode else self.norm_index(b.len, i.t, p, line)
            return self.wrapk(b.kind, z3.Select(b.arr, j))
        if isinstance(b, (VCList, VTuple)):
            n = len(b.items)
            if z3.is_int_value(i.t):
                c = i.t.as_long()
                if -n <= c < n: return b.items[c]
                self.vc('no-raise/index@%d' % line, p, z3.BoolVal(False), line=line)
                raise Undecided('constant index out of range')
            if not self.spec_mode:
                self.vc('no-raise/index@%d' % line, p, z3.And(i.t >= -n, i.t < n), line=line)
            if n == 0:
                if self.spec_mode: return VUnion([])       # no such element: every comparison with it is false
                raise Undecided('index into empty list')
            j = z3.If(i.t >= 0, i.t, i.t + n)
            out = b.items[n - 1]
            for c in range(n - 2, -1, -1): out = self.merge(j == c, b.items[c], out)
            return out
        if isinstance(b, VNone):
            self.vc('no-raise/subscript-None@%d' % line, p, z3.BoolVal(False), line=line)
            raise Undecided('subscript of None')
        if isinstance(b, VPy): return self.py_index(b, i, p, line)
        if isinstance(b, (VInt, VBool, VReal)) and self.spec_mode: return VUnion([])       # no such component (specs are total)
        if isinstance(b, VUnion):
            alts = []
            for c, x in b.alts:
                if isinstance(x, (VTuple, VCList, VList, VPy)):
                    self.guards.append(c)
                    try: alts.append((c, self.index(x, i, p, line)))
                    finally: self.guards.pop()
                else: self.vc('no-raise/subscript-of-%s@%d' % (type(x).__name__, line), p, z3.Not(c), line=line)
            if not alts:
                if self.spec_mode: return VUnion([])
                raise Undecided('subscript of union without subscriptable alternative')
            return self.compress_union(alts)
        raise Undecided('subscript of %r at line %d' % (b, line))

    def slice(self, b, s, p, line):
        if s.step is not None: raise Undecided('slice step')
        lo = self.ev(s.lower, p) if s.lower is not None else VInt(0)
        if not (isinstance(lo, VInt) and z3.is_int_value(lo.t) and lo.t.as_long() >= 0 and s.upper is None):
            raise Undecided('slice other than [c:]')
        c = lo.t.as_long()
        if isinstance(b, VList):
            j = z3.Int('slj')
            return VList(z3.If(b.len >= c, b.len - c, 0), z3.Lambda([j], z3.Select(b.arr, j + c)), b.kind)
        if isinstance(b, (VCList,)): return VCList(b.items[c:])
        if isinstance(b, VPy): return self.py_slice(b, c, p, line)
        raise Undecided('slice of %r' % (b,))

    def ev_ListComp(self, e, p):
        if len(e.generators) != 1 or e.generators[0].ifs: raise Undecided('comprehension form')
        g = e.generators[0]
        if not isinstance(g.target, ast.Name): raise Undecided('comprehension target')
        it = g.iter
        # [[] for i in range(n)]
        if isinstance(e.elt, ast.List) and not e.elt.elts and isinstance(it, ast.Call) and \
                isinstance(it.func, ast.Name) and it.func.id == 'range' and len(it.args) == 1:
            n = self.ev(it.args[0], p)
            return ('emptylists', z3.If(n.t >= 0, n.t, 0))
        src = self.ev(it, p)
        if isinstance(src, VList):
            j = fresh('lcj', I); q = p.fork(); q.env[g.target.id] = wrap(src.kind, z3.Select(src.arr, j))
            self.guards.append(z3.And(0 <= j, j < src.len))      # safety obligations hold for every element
            try: elt = self.ev(e.elt, q)
            finally: self.guards.pop()
            if isinstance(elt, (VLpVar, VInt)):
                out = VList(src.len, self.lemmas.named_array(j, elt.t, [x for x in self.qvars if self.contains_term(elt.t, x)]), 'var' if isinstance(elt, VLpVar) else 'int')
                out.comp = (j, elt.t)        # the generating expression (used by lpSum to name the summed sequence)
                return out
            raise Undecided('comprehension element %r' % (elt,))
        if isinstance(src, VCList):
            out = []
            for x in src.items:
                q = p.fork(); q.env[g.target.id] = x; out.append(self.ev(e.elt, q))
            return VCList(out)
        raise Undecided('comprehension over %r' % (src,))
