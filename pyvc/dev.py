"""Developer driver: python3-vt -m pyvc.dev [-v] <module:qualname | lemma name> ..."""
import sys, os
sys.path.insert(0, os.path.dirname(os.path.dirname(os.path.abspath(__file__))))
from pyvc import source, vc as vcmod, check


def run(keys, verbose=False, opts=None):
    repo = source.Repo()
    C, defs, classes, LEMMAS = check.load_all()
    spec = dict(functions=[(k, opts) if opts else k for k in keys if k not in LEMMAS], lemmas=[k for k in keys if k in LEMMAS])
    vcs, infos, und = check.generate('DEV', spec, repo, C, defs, classes, LEMMAS)
    vcmod.discharge(vcs)
    byf = {}
    for v in vcs: byf.setdefault(v.func, []).append(v)
    for f, vs in byf.items():
        bad = [v for v in vs if vcmod.status(v) != 'proved']
        print('%-60s %3d VCs  %s  (solve %.2fs)' % (f, len(vs), 'all proved' if not bad else 'FAILED', sum(v.time for v in vs)))
        for v in (vs if verbose else bad):
            print('    %-70s %s %.2fs %s' % (v.name, vcmod.status(v), v.time, (v.model or '')[:400] if vcmod.status(v) != 'proved' else ''))
    for u in und: print('UNDECIDED %s: %s' % (u['function'], u['reason']))
    return vcs


if __name__ == '__main__':
    a = sys.argv[1:]; verbose = '-v' in a
    run([x for x in a if x != '-v'], verbose)
