"""Developer driver: python3-vt -m pyvc.dev <module:qualname> ..."""
import sys, time, importlib, traceback
from . import source, engine, vc as vcmod
from .core import *


def load_contracts():
    import contracts.vocabulary as voc, contracts.schema as sch
    C = {}
    for m in ('generator_shared', 'fileIO', 'generator_spa', 'generator_ha_sm_hr', 'model', 'brute_force_solver',
              'options_parser', 'instance_options_parser', 'lp_solver', 'solver', 'generator'):
        try: mod = importlib.import_module('contracts.' + m)
        except ModuleNotFoundError: continue
        C.update(mod.CONTRACTS)
    return C, voc.DEFS, sch.CLASSES


def models():
    out = []
    for m in ('models_basic',):
        try: out.append(importlib.import_module('pyvc.' + m))
        except ModuleNotFoundError: pass
    return out


def run(keys, repo=None, verbose=True):
    repo = repo or source.Repo()
    C, defs, classes = load_contracts()
    allv = []; infos = []
    for k in keys:
        ex = engine.Exec(repo, C, classes, defs, models())
        t0 = time.time()
        try:
            vcs, info = ex.verify(k)
        except (Undecided, StaleContract) as e:
            print('%-60s %s: %s' % (k, type(e).__name__, e)); continue
        info['gen_s'] = time.time() - t0
        allv += vcs; infos.append(info)
    t0 = time.time(); vcmod.discharge(allv); dt = time.time() - t0
    byf = {}
    for v in allv: byf.setdefault(v.func, []).append(v)
    for f, vs in byf.items():
        bad = [v for v in vs if vcmod.status(v) != 'proved']
        print('%-60s %3d VCs  %s  (solve %.2fs)' % (f, len(vs), 'all proved' if not bad else 'FAILED', sum(v.time for v in vs)))
        for v in bad:
            print('    %-50s %s  %s' % (v.name, vcmod.status(v), (v.model or '')[:300]))
    return allv


if __name__ == '__main__':
    sys.path.insert(0, '/verif')
    run(sys.argv[1:])
