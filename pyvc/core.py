"""pyvc core data: paths, verification conditions, exceptions."""
import z3
from .values import *


SCHEMA = {   # Pair attributes (heap arrays): attribute -> element kind
    'studentID': 'int', 'projectID': 'int', 'lecturerID': 'int', 'student_index': 'int', 'project_index': 'int',
    'lecturer_index': 'int', 'rank_student': 'int', 'rank_lecturer': 'int',
    'lp_var': 'var', 'alpha_var': 'var', 'beta_var': 'var',
}


class Undecided(Exception):
    """Construct outside the supported subset / comparison that cannot be decided: never a violation."""


class StaleContract(Exception):
    """The sidecar contract no longer matches the code (unknown name, missing loop ordinal)."""


class VC:
    __slots__ = ('name', 'hyps', 'goal', 'kind', 'line', 'func', 'result', 'time', 'model', 'expect', 'mode', 'model_dict', 'quant', 'goal_tag', 'drop')

    def __init__(self, name, hyps, goal, kind='post', line=0, func='', expect='unsat'):
        self.name = name; self.hyps = list(hyps); self.goal = goal; self.kind = kind; self.line = line
        self.func = func; self.result = None; self.time = 0.0; self.model = None; self.mode = None; self.model_dict = None; self.quant = True; self.goal_tag = None; self.drop = ()
        self.expect = expect      # 'unsat' for proof obligations, 'sat' for cover (vacuity) checks


class Path:
    def __init__(self):
        self.env = {}        # local name -> value
        self.pc = []         # path condition (list of z3 Bool)
        self.heap = {}       # attribute name -> z3 array  Ref -> sort
        self.has = {}        # attribute name -> z3 array  Ref -> Bool (presence)
        self.objs = {}       # oid -> {field: value}   (singleton objects)
        self.ghost = {}      # ghost state
        self.alias = {}      # local name -> (container lvalue ast, index term)   (loop var aliasing a list element)
        self.tags = {}       # id of an assumed invariant clause in pc -> its name (for hypothesis slicing)

    def fork(self):
        p = Path()
        p.env = dict(self.env); p.pc = list(self.pc); p.heap = dict(self.heap); p.has = dict(self.has)
        p.objs = {k: dict(v) for k, v in self.objs.items()}
        p.ghost = dict(self.ghost); p.alias = dict(self.alias); p.tags = dict(self.tags)
        return p

    def assume(self, t):
        if z3.is_true(t): return
        self.pc.append(t)
