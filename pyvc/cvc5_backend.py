"""Second back end (thorough tier): every obligation z3 discharged is exported as SMT-LIB 2 and given to cvc5 (the Debian binary,
1.0.x) with a short time limit.  cvc5 answering `unsat` confirms the proof independently; `unknown` / timeout / a parse problem says
nothing; `sat` contradicts z3 and is a checker error (exit 3) - it has not happened, and it must never be silent."""
import os, subprocess, tempfile, time
import z3

CVC5 = os.environ.get('PYVC_CVC5', '/usr/bin/cvc5')
TLIMIT_MS = int(os.environ.get('PYVC_CVC5_TLIMIT_MS', '6000'))


def _one(args):
    i, text = args
    fd, path = tempfile.mkstemp(suffix='.smt2'); os.write(fd, text.encode()); os.close(fd)
    t0 = time.time()
    try:
        r = subprocess.run([CVC5, '--lang=smt2', '--tlimit=%d' % TLIMIT_MS, '--full-saturate-quant', path], capture_output=True, text=True, timeout=TLIMIT_MS / 1000 + 20)
        out = (r.stdout.strip().splitlines() or [''])[0].strip()
        if out not in ('sat', 'unsat', 'unknown'):
            msg = (r.stderr or r.stdout).strip()
            out = 'unknown' if 'timeout' in msg or 'interrupted' in msg else 'error: ' + msg[:120]
    except subprocess.TimeoutExpired:
        out = 'unknown'
    finally:
        os.unlink(path)
    return i, out, time.time() - t0


def recheck(vcs, jobs=16):
    from . import vc as vcmod
    work = []
    for i, v in enumerate(vcs):
        if v.expect == 'sat' or vcmod.status(v) != 'proved': continue
        s = z3.Solver()
        for h in v.hyps: s.add(h)
        s.add(z3.Not(v.goal))
        try: text = '(set-logic ALL)\n' + s.to_smt2()
        except Exception: continue
        work.append((i, text))
    res = dict(confirmed=0, unknown=0, errors=0, disagree=0, asked=len(work), time_s=0.0, disagreements=[])
    if not work or not os.path.exists(CVC5): return res
    from concurrent.futures import ThreadPoolExecutor
    t0 = time.time()
    with ThreadPoolExecutor(max_workers=jobs) as ex:
        for i, out, t in ex.map(_one, work):
            if out == 'unsat': res['confirmed'] += 1
            elif out == 'sat': res['disagree'] += 1; res['disagreements'].append(vcs[i].name)
            elif out.startswith('error'): res['errors'] += 1; res.setdefault('first_error', out)
            else: res['unknown'] += 1
    res['time_s'] = round(time.time() - t0, 1)
    return res
