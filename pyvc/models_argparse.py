"""Model of argparse (trusted base T9): parse_args yields typed values or the declared defaults (None / False), or exits
with code 2; parser.error exits with code 2; get_default returns the declared default."""
import z3
from .values import *
from .core import *


def argument_parser(ex, p, args, kwargs, e):
    return VExt('parser', dict(args=[]))


def add_argument(ex, p, args, kwargs, e):
    parser = args[0]
    spec = dict(flags=[''.join(a.atoms) for a in args[1:]])
    for k, v in kwargs.items():
        if k in ('dest', 'action', 'nargs'): spec[k] = ''.join(v.atoms) if isinstance(v, VStr) else v
        elif k == 'type': spec['type'] = v.data
        elif k == 'required': spec['required'] = z3.is_true(v.t)
        elif k == 'choices': spec['choices'] = [''.join(x.atoms) for x in v.items]
        elif k == 'default': spec['default'] = v
    parser.data['args'].append(spec)
    return VNone()


PY_OPTIONALS = [False]


def given_const(dest, spec):
    """The value argparse stores for `dest`, as a stable symbolic constant (so that specifications can refer to it)."""
    name = 'arg_' + dest
    if spec.get('action') == 'store_true': return VBool(z3.Bool(name))
    ty = spec.get('type'); req = spec.get('required', False) or ('default' in spec and not isinstance(spec['default'], VNone))       # with a default the value is never None
    if spec.get('nargs') == '+':
        if ty != 'int': raise Undecided('nargs type')
        return VPy(z3.Const(name, Py))       # None or a non-empty list of ints (constraint added by parse_args)
    if ty == 'int' and not req and PY_OPTIONALS[0]: return VPy(z3.Const(name, Py))      # None | int, dynamically typed
    if ty == 'int': return VInt(z3.Int(name)) if req else VOpt(z3.Const(name, Opt))
    if ty == 'float': return VReal(z3.Real(name)) if req else VOptR(z3.Const(name, OptR))
    if ty == 'str' or ty is None: return VStr([('opaque', name)])
    raise Undecided('argparse type %r' % ty)


def parse_args(ex, p, args, kwargs, e):
    parser = args[0]
    PY_OPTIONALS[0] = bool(getattr(ex, 'argparse_py', False))
    oid = ex.new_oid(); p.objs[oid] = {}
    fixed = getattr(ex, 'argv_fixed', {})
    for spec in parser.data['args']:
        d = spec['dest']
        if d in fixed: v = VStr([fixed[d]])
        else: v = given_const(d, spec)
        if isinstance(v, VPy):
            if spec.get('nargs') == '+': p.assume(z3.Or(Py.is_pnone(v.t), z3.And(Py.is_plist(v.t), list_sort('int').len(Py.tail(v.t)) >= 0)))
            else: p.assume(z3.Or(Py.is_pnone(v.t), Py.is_pint(v.t)))
        p.objs[oid][d] = v
    ex.parsed_specs = {s['dest']: s for s in parser.data['args']}
    return VObj(oid, 'Namespace')


def get_default(ex, p, args, kwargs, e):
    parser = args[0]; name = ''.join(args[1].atoms)
    for spec in parser.data['args']:
        if spec['dest'] == name:
            if 'default' in spec: return spec['default']
            return VBool(False) if spec.get('action') == 'store_true' else VNone()
    return VNone()


def spec_given(ex, e, p):
    """given('dest'): the value argparse produced for dest (before the code under verification changes anything)."""
    d = e.args[0].value
    specs = getattr(ex, 'parsed_specs', None) or ex.declared_args
    if d not in specs: raise StaleContract('no argparse destination ' + d)
    fixed = getattr(ex, 'argv_fixed', {})
    if d in fixed: return VStr([fixed[d]])
    return given_const(d, specs[d])


def install(ex):
    ex.ext_models['argparse.ArgumentParser'] = argument_parser
    ex.ext_models['parser.add_argument'] = add_argument
    ex.ext_models['parser.parse_args'] = parse_args
    ex.ext_models['parser.get_default'] = get_default
    ex.globals['RawTextHelpFormatter'] = VExt('opaque')
    ex.spec_ext['given'] = spec_given
    ex.declared_args = {}
