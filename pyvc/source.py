"""Reads the real source from the repository working tree on every run (DESIGN 2.2)."""
import ast, hashlib, os

REPO = os.environ.get('PYVC_REPO', '/repo')

MODULES = {
    'model': 'matchingproblems/solver/model.py',
    'lp_solver': 'matchingproblems/solver/lp_solver.py',
    'brute_force_solver': 'matchingproblems/solver/brute_force_solver.py',
    'solver': 'matchingproblems/solver/solver.py',
    'fileIO': 'matchingproblems/solver/fileIO.py',
    'options_parser': 'matchingproblems/solver/options_parser.py',
    'solver_enums': 'matchingproblems/solver/enums.py',
    'generator': 'matchingproblems/generator/generator.py',
    'generator_shared': 'matchingproblems/generator/generator_shared.py',
    'generator_ha_sm_hr': 'matchingproblems/generator/generator_ha_sm_hr.py',
    'generator_spa': 'matchingproblems/generator/generator_spa.py',
    'instance_options_parser': 'matchingproblems/generator/instance_options_parser.py',
    'generator_enums': 'matchingproblems/generator/enums.py',
}


class Func:
    def __init__(self, module, qualname, node, src, path):
        self.module = module; self.qualname = qualname; self.node = node; self.path = path
        seg = ast.get_source_segment(src, node) or ''
        self.sha256 = hashlib.sha256(seg.encode()).hexdigest()
        self.lines = (node.lineno, node.end_lineno)
        self.loops = {}          # id(ast node) -> ordinal (pre-order over for/while)
        self.loop_nodes = []
        n = 0
        for x in _preorder(node):
            if isinstance(x, (ast.For, ast.While)):
                self.loops[id(x)] = n; self.loop_nodes.append(x); n += 1
        self.nstmts = sum(1 for x in ast.walk(node) if isinstance(x, ast.stmt)) - 1
        # names bound in the function, in order of first binding (parameters first): the position of a local is stable under renaming
        order = [a.arg for a in node.args.args]
        def targets(t):
            if isinstance(t, ast.Name): yield t.id
            elif isinstance(t, (ast.Tuple, ast.List)):
                for e in t.elts: yield from targets(e)
        for x in _preorder(node):
            ts = []
            if isinstance(x, ast.Assign): ts = x.targets
            elif isinstance(x, (ast.AugAssign, ast.AnnAssign)): ts = [x.target]
            elif isinstance(x, ast.For): ts = [x.target]
            elif isinstance(x, ast.With): ts = [i.optional_vars for i in x.items if i.optional_vars is not None]
            for t in ts:
                for nm in targets(t):
                    if nm not in order: order.append(nm)
        self.local_order = order

    @property
    def key(self): return self.module + ':' + self.qualname


def _preorder(node):
    for c in ast.iter_child_nodes(node):
        yield c
        yield from _preorder(c)


class Repo:
    def __init__(self, root=None, overrides=None):
        """overrides: {module: source text} for in-memory mutants (selftest only)."""
        self.root = root or REPO
        self.funcs = {}; self.src = {}; self.tree = {}; self.enums = {}
        for m, rel in MODULES.items():
            p = os.path.join(self.root, rel)
            s = (overrides or {}).get(m)
            if s is None:
                with open(p) as f: s = f.read()
            self.src[m] = s
            t = ast.parse(s, filename=p)          # a SyntaxError here is exit 3 in the caller
            self.tree[m] = t
            for n in t.body:
                if isinstance(n, ast.FunctionDef):
                    self.funcs[m + ':' + n.name] = Func(m, n.name, n, s, rel)
                if isinstance(n, ast.ClassDef):
                    members = {}
                    for b in n.body:
                        if isinstance(b, ast.FunctionDef):
                            q = n.name + '.' + b.name
                            self.funcs[m + ':' + q] = Func(m, q, b, s, rel)
                        if isinstance(b, ast.Assign) and len(b.targets) == 1 and isinstance(b.targets[0], ast.Name) \
                                and isinstance(b.value, ast.Constant):
                            members[b.targets[0].id] = b.value.value
                    if any(isinstance(x, ast.Name) and x.id == 'Enum' for x in n.bases):
                        self.enums[n.name] = members

    def get(self, key):
        if key not in self.funcs:
            raise KeyError('function not found in repository source: ' + key)
        return self.funcs[key]

    def find_method(self, cls, name):
        for k, f in self.funcs.items():
            if f.qualname == cls + '.' + name: return f
        return None

    def find_function(self, module, name):
        return self.funcs.get(module + ':' + name)
