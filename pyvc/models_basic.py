"""Models of numpy / random externals (trusted base T10): assumed contracts, conformance-tested in the thorough tier."""
import z3
from .values import *
from .core import *
from . import lemmas


def np_sum(ex, p, args, kwargs, e):
    v = args[0]
    if isinstance(v, VList) and v.kind == 'real': return VReal(lemmas.SumR(v.arr, v.len))
    if isinstance(v, VList) and v.kind == 'int': return VInt(lemmas.SumA(v.arr, v.len))
    raise Undecided('np.sum of %r' % (v,))


# ---- random.shuffle(x): x becomes a permutation of itself (T10).  pi / sigma are mutually inverse index maps.
def random_shuffle(ex, e, p, target):
    v = ex.ev(e.args[0], p)
    if not isinstance(v, VList): raise Undecided('shuffle of %r' % (v,))
    s = sort_of(v.kind)
    arr = fresh('shuffled', z3.ArraySort(I, s)); pi = fresh('pi', z3.ArraySort(I, I)); sg = fresh('sigma', z3.ArraySort(I, I))
    t = fresh('t', I); u = fresh('u', I)
    p.assume(z3.ForAll([t], z3.Implies(z3.And(0 <= t, t < v.len),
             z3.And(0 <= pi[t], pi[t] < v.len, sg[pi[t]] == t, arr[t] == v.arr[pi[t]]))))
    p.assume(z3.ForAll([u], z3.Implies(z3.And(0 <= u, u < v.len),
             z3.And(0 <= sg[u], sg[u] < v.len, pi[sg[u]] == u, arr[sg[u]] == v.arr[u]))))
    new = VList(v.len, arr, v.kind)
    from . import listsets
    if v.kind in listsets.KINDS and ex.listsets:
        for f in listsets.on_permute(v.term(), new.term()): p.assume(f)
    ex.lv_set(e.args[0], new, p, e.lineno)
    return ex.finish_call(VNone(), p, target, e.lineno)


def shuffle_mods(ex, n, p):
    return ex.root_mod(n.args[0], p)


random_shuffle.mods = shuffle_mods


def np_array(ex, p, args, kwargs, e): return args[0]


# ---- np.random.choice(a, size, p=p) with replacement, a and p concrete-length (the tie indicator draw):
#      every element is some a[c]; a value of probability 0 never occurs.  Preconditions (ValueError otherwise):
#      probabilities non-negative and summing to 1.
def np_arange(ex, p, args, kwargs, e):
    """np.arange(a, b): the integers a..b-1 in order (T10)"""
    from . import listsets
    lo, hi = args[0].t, args[1].t
    n = z3.If(hi > lo, hi - lo, 0); arr = fresh('arange', z3.ArraySort(I, I)); j = fresh('j', I); x = fresh('x', I)
    p.assume(z3.ForAll([j], z3.Implies(z3.And(0 <= j, j < n), arr[j] == lo + j)))
    v = VList(n, arr, 'int')
    if ex.listsets:
        p.assume(listsets.DupFree(v.term()))
        p.assume(z3.ForAll([x], z3.Select(listsets.Elems(v.term()), x) == z3.And(lo <= x, x < hi)))
    return v


def np_random_randint(ex, p, args, kwargs, e):
    """np.random.randint(a, b): some integer in [a, b) (ValueError when the range is empty)"""
    lo, hi = args[0].t, args[1].t
    ex.vc('no-raise/randint-empty-range@%d' % e.lineno, p, lo < hi, line=e.lineno)
    r = fresh('randint', I); p.assume(z3.And(lo <= r, r < hi))
    return VInt(r)


def np_random_choice(ex, p, args, kwargs, e):
    if 'replace' in kwargs: return np_random_choice_distinct(ex, p, args, kwargs, e)
    return np_random_choice_small(ex, p, args, kwargs, e)


def np_random_choice_distinct(ex, p, args, kwargs, e):
    """np.random.choice(a, k, replace=False, p=w): k distinct elements of a.  Preconditions (ValueError otherwise): 0 <= k,
    len(w) == len(a), weights non-negative and summing to 1, at least k weights positive."""
    from . import listsets
    a = args[0]; k = args[1]; w = kwargs.get('p'); line = e.lineno
    if not (isinstance(a, VList) and a.kind == 'int' and isinstance(k, VInt) and isinstance(w, VList) and w.kind == 'real'): raise Undecided('np.random.choice form')
    j = fresh('j', I)
    ex.vc('no-raise/choice-size@%d' % line, p, z3.And(0 <= k.t, k.t <= a.len), line=line)
    ex.vc('no-raise/choice-weights-length@%d' % line, p, w.len == a.len, line=line)
    ex.vc('no-raise/choice-weights-positive@%d' % line, p, z3.ForAll([j], z3.Implies(z3.And(0 <= j, j < w.len), z3.Select(w.arr, j) > 0)), line=line)
    ex.vc('no-raise/choice-weights-sum-to-one@%d' % line, p, ex.lemmas.SumR(w.arr, w.len) == 1, line=line)
    p.env['_choice_weights'] = w          # the weights this draw used (visible to specifications: asserts at loop<k>.body_end)
    arr = fresh('chosen', z3.ArraySort(I, I)); v = VList(k.t, arr, 'int'); x = fresh('x', I)
    if ex.listsets:
        p.assume(listsets.DupFree(v.term()))
        p.assume(z3.ForAll([x], z3.Implies(z3.Select(listsets.Elems(v.term()), x), z3.Select(listsets.Elems(a.term()), x))))
    return v


def np_random_choice_small(ex, p, args, kwargs, e):
    a = args[0]; size = args[1]; pr = kwargs.get('p'); line = e.lineno
    if kwargs.get('replace') is not None or not isinstance(a, VCList) or not isinstance(pr, VCList) or len(a.items) != len(pr.items):
        raise Undecided('np.random.choice form')
    ps = [ex.toreal(x) for x in pr.items]
    ex.vc('no-raise/choice-probabilities-nonneg@%d' % line, p, z3.And(*[x >= 0 for x in ps]), line=line)
    ex.vc('no-raise/choice-probabilities-sum@%d' % line, p, z3.Sum(ps) == 1, line=line)
    if not isinstance(size, VInt): raise Undecided('choice size')
    ex.vc('no-raise/choice-size-nonneg@%d' % line, p, size.t >= 0, line=line)
    arr = fresh('choice', z3.ArraySort(I, I)); j = fresh('j', I)
    body = z3.Or(*[z3.And(arr[j] == a.items[c].t, ps[c] > 0) for c in range(len(ps))])
    p.assume(z3.ForAll([j], z3.Implies(z3.And(0 <= j, j < size.t), body)))
    return VList(size.t, arr, 'int')


# ---- itertools.product(list(range(m)), repeat=n) (T11): a finite enumeration E[0..N) of lists of length n over range(m);
#      (completeness - every such tuple occurs - is the trusted part and is only needed to read "over all matchings")
def it_product(ex, p, args, kwargs, e):
    src = args[0]; rep = kwargs.get('repeat')
    if not (isinstance(src, VExt) and src.tag == 'rangeobj' and len(src.data) == 1 and isinstance(rep, VInt)): raise Undecided('product form')
    m = src.data[0].t
    N = z3.Int('ENUM.len'); E = z3.Array('ENUM.arr', I, list_sort('int'))
    L = list_sort('int'); u = fresh('u', I); i = fresh('i', I)
    p.assume(N >= 1)
    p.assume(z3.ForAll([u], z3.Implies(z3.And(0 <= u, u < N), z3.And(L.len(E[u]) == z3.If(rep.t >= 0, rep.t, 0),
             z3.ForAll([i], z3.Implies(z3.And(0 <= i, i < L.len(E[u])), z3.And(0 <= L.arr(E[u])[i], L.arr(E[u])[i] < m)))))))
    return VExt('product_enum', VList(N, E, ('list', 'int')))


def iter_product(ex, v, p, line):
    lst = v.data
    return lst.len, (lambda k: wrap(lst.kind, z3.Select(lst.arr, k))), None, None


def datetime_now(ex, p, args, kwargs, e):
    """datetime.datetime.now(): some real number of seconds (T12); nothing is assumed about successive readings."""
    return VReal(fresh('now', z3.RealSort()))


def os_path_exists(ex, p, args, kwargs, e): return VBool(fresh('exists', z3.BoolSort()))          # T8: any answer
def os_makedirs(ex, p, args, kwargs, e): return VNone()
def builtin_open(ex, p, args, kwargs, e): return VExt('file', tuple(args))                          # T8: a handle; content is not modelled
# ---- ghost log of file writes (T8): write number w went to a file whose name has the shape <directory>/<FS.idx(w)>.txt (FS.shaped(w)),
#      opened for writing, and carried the text FS.txt(w) (FS.hastxt(w): the content is a text assembled in whole lines, models_text)
FS_DEFAULTS = {'fs_n': z3.Int('FS.writes0'), 'fs_idx': z3.Array('FS.idx0', I, I), 'fs_shaped': z3.Array('FS.shaped0', I, B),
               'fs_txt': z3.Array('FS.txt0', I, Text), 'fs_hastxt': z3.Array('FS.hastxt0', I, B)}


def fs_get(p, name):
    if name not in p.ghost: p.ghost[name] = FS_DEFAULTS[name]
    return p.ghost[name]


def file_write(ex, p, args, kwargs, e):
    h = args[0]; content = args[1] if len(args) > 1 else None; n = fs_get(p, 'fs_n')
    name = h.data[0] if isinstance(h, VExt) and h.data else None; mode = h.data[1] if isinstance(h, VExt) and h.data and len(h.data) > 1 else None
    shaped = False; idx = fresh('fileno', I)
    if isinstance(name, VStr) and isinstance(mode, VStr) and mode.atoms == ['w']:
        a = name.atoms
        if len(a) == 3 and isinstance(a[0], tuple) and a[0][0] == 'opaque' and isinstance(a[1], tuple) and a[1][0] == 'int' and a[2] == '.txt':
            a = [a[0], '', a[1], a[2]]
        if len(a) == 4 and isinstance(a[0], tuple) and a[0][0] == 'opaque' and a[1] == '/' and isinstance(a[2], tuple) and a[2][0] == 'int' and a[3] == '.txt':
            shaped = True; idx = a[2][1]
    p.ghost['fs_idx'] = z3.Store(fs_get(p, 'fs_idx'), n, idx); p.ghost['fs_shaped'] = z3.Store(fs_get(p, 'fs_shaped'), n, z3.BoolVal(shaped))
    p.ghost['fs_hastxt'] = z3.Store(fs_get(p, 'fs_hastxt'), n, z3.BoolVal(isinstance(content, VText)))
    if isinstance(content, VText): p.ghost['fs_txt'] = z3.Store(fs_get(p, 'fs_txt'), n, content.t)
    else: fs_get(p, 'fs_txt')
    p.ghost['fs_n'] = n + 1
    return VNone()


file_write.mods = lambda ex, n, p: {('ghost', k) for k in FS_DEFAULTS}


def spec_files_written(ex, e, p): return VInt(fs_get(p, 'fs_n'))
def spec_file_index(ex, e, p): return VInt(z3.Select(fs_get(p, 'fs_idx'), ex.ev(e.args[0], p).t))
def spec_file_named_ok(ex, e, p): return VBool(z3.Select(fs_get(p, 'fs_shaped'), ex.ev(e.args[0], p).t))
def spec_file_has_text(ex, e, p): return VBool(z3.Select(fs_get(p, 'fs_hastxt'), ex.ev(e.args[0], p).t))
def spec_file_text(ex, e, p): return VText(z3.Select(fs_get(p, 'fs_txt'), ex.ev(e.args[0], p).t))
def file_close(ex, p, args, kwargs, e): return VNone()


# ---- reading a text file (T8 / T7): the file is a list of NLINES lines; line i has LTOKLEN(i) tokens LTOK(i)[q]
NLINES = z3.Int('FILE.nlines'); LTOKLEN = z3.Function('FILE.ntok', I, I); LTOK = z3.Function('FILE.tok', I, z3.ArraySort(I, Tok))
LTIES = z3.Function('FILE.ties', I, z3.ArraySort(I, I))          # ghost: the tie decisions the list on line i was written from


def line_tokens(ex, t):
    return VList(LTOKLEN(t), LTOK(t), 'tok')


def iter_file(ex, v, p, line):
    p.assume(NLINES >= 0)
    return NLINES, (lambda k: VLine(k)), None, None


def spec_file_len(ex, e, p): return VInt(NLINES)
def spec_line_toks(ex, e, p):
    i = ex.ev(e.args[0], p).t; p.assume(LTOKLEN(i) >= 0) if hasattr(p, 'assume') else None
    return line_tokens(ex, i)
def spec_line_ties(ex, e, p):
    i = ex.ev(e.args[0], p).t
    return VList(LTOKLEN(i), LTIES(i), 'int')


def install(ex):
    ex.iter_models['file'] = iter_file
    for _n, _f in (('files_written', spec_files_written), ('file_index', spec_file_index), ('file_named_ok', spec_file_named_ok), ('file_has_text', spec_file_has_text), ('file_text', spec_file_text)): ex.spec_ext[_n] = _f
    ex.spec_ext['file_len'] = spec_file_len; ex.spec_ext['line_toks'] = spec_line_toks; ex.spec_ext['line_ties'] = spec_line_ties
    ex.ext_models['os.path.exists'] = os_path_exists; ex.ext_models['os.makedirs'] = os_makedirs
    ex.ext_models['open'] = builtin_open; ex.ext_models['file.write'] = file_write; ex.ext_models['file.close'] = file_close
    ex.ext_models['datetime.datetime.now'] = datetime_now
    ex.ext_models['product'] = it_product
    ex.iter_models['product_enum'] = iter_product
    ex.ext_models['np.sum'] = np_sum
    ex.ext_models['np.array'] = np_array
    ex.ext_models['np.random.choice'] = np_random_choice
    ex.ext_models['np.arange'] = np_arange
    ex.ext_models['np.random.randint'] = np_random_randint
    ex.stmt_models['random.shuffle'] = random_shuffle
