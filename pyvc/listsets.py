"""Abstract views of int lists: element set, element set of a prefix, duplicate-freeness.
Uninterpreted functions whose defining facts are instantiated by the engine at list operations (append, empty,
shuffle, iteration).  Each fact schema is justified from the definitions by a lemma in contracts/lemmas.py (LISTSET/*).
   elems(L)      = { L[t] | 0 <= t < len(L) }
   pelems(L, k)  = { L[t] | 0 <= t < min(k, len(L)) }
   dupfree(L)    = forall t != u < len(L). L[t] != L[u]
"""
import z3
from .values import *

SET = z3.ArraySort(I, B)
EMPTY = z3.K(I, z3.BoolVal(False))
KINDS = ('int', 'ref')
_F = {}


def fns(kind):
    if kind not in _F:
        LS = list_sort(kind)
        _F[kind] = (z3.Function('Elems_' + kind, LS, SET), z3.Function('PElems_' + kind, LS, I, SET), z3.Function('DupFree_' + kind, LS, B))
    return _F[kind]


def _k(term):
    for k in KINDS:
        if term.sort() == list_sort(k): return k
    raise ValueError('list kind')


def Elems(t): return fns(_k(t))[0](t)
def PElems(t, n): return fns(_k(t))[1](t, n)
def DupFree(t): return fns(_k(t))[2](t)


class VSet(V):
    def __init__(s, t): s.t = t


def on_empty(term):
    return [Elems(term) == EMPTY, DupFree(term)]


def on_append(old, new, v):
    return [Elems(new) == z3.Store(Elems(old), v, z3.BoolVal(True)),
            DupFree(new) == z3.And(DupFree(old), z3.Not(z3.Select(Elems(old), v)))]


def on_permute(old, new):
    return [Elems(new) == Elems(old), DupFree(new) == DupFree(old)]


def on_iter_init(L):
    return [PElems(L, z3.IntVal(0)) == EMPTY]


def on_iter_step(L, k, elem):
    return [PElems(L, k + 1) == z3.Store(PElems(L, k), elem, z3.BoolVal(True)),
            z3.Select(Elems(L), elem),
            z3.Implies(DupFree(L), z3.Not(z3.Select(PElems(L, k), elem)))]


def on_iter_exit(L, n):
    return [PElems(L, n) == Elems(L)]
