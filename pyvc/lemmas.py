"""Sum / Count spec functions and named arrays.

Sum(q, n, body) is SumA(A, n) where A is a *named array* with the definitional axiom  forall q. A[q] == body(q)
(structurally equal bodies share one array, so equal sums are syntactically equal).  SumA is uninterpreted; its
recursive definition is given with one level of "fuel" (Dafny style), so every Sum term written in a contract is
unfolded exactly once and there is no matching loop:
    SumA(a, n) == if n <= 0 then 0 else SumA0(a, n-1) + a[n-1]        (trigger SumA(a, n))
    SumA(a, n) == SumA0(a, n)                                          (trigger SumA(a, n))
    n <= 0  ==>  SumA0(a, n) == 0                                      (trigger SumA0(a, n))
Induction over sums is done by explicit lemmas (contracts/lemmas.py), never by the solver."""
import z3
I = z3.IntSort(); R = z3.RealSort()
AI = z3.ArraySort(I, I); AR = z3.ArraySort(I, R)

SumA = z3.Function('SumA', AI, I, I); SumA0 = z3.Function('SumA0', AI, I, I)
SumR = z3.Function('SumR', AR, I, R); SumR0 = z3.Function('SumR0', AR, I, R)
_a = z3.Const('sa', AI); _r = z3.Const('sr', AR); _n = z3.Int('sn')
SUM_AXIOMS = [
    z3.ForAll([_a, _n], SumA(_a, _n) == z3.If(_n <= 0, z3.IntVal(0), SumA0(_a, _n - 1) + z3.Select(_a, _n - 1)), patterns=[SumA(_a, _n)]),
    z3.ForAll([_a, _n], SumA(_a, _n) == SumA0(_a, _n), patterns=[SumA(_a, _n)]),
    z3.ForAll([_a, _n], z3.Implies(_n <= 0, SumA0(_a, _n) == 0), patterns=[SumA0(_a, _n)]),
    z3.ForAll([_r, _n], SumR(_r, _n) == z3.If(_n <= 0, z3.RealVal(0), SumR0(_r, _n - 1) + z3.Select(_r, _n - 1)), patterns=[SumR(_r, _n)]),
    z3.ForAll([_r, _n], SumR(_r, _n) == SumR0(_r, _n), patterns=[SumR(_r, _n)]),
    z3.ForAll([_r, _n], z3.Implies(_n <= 0, SumR0(_r, _n) == 0), patterns=[SumR0(_r, _n)]),
]


def Count(arr, n):
    return SumA(arr, n)


_named = {}


def named_array(j, body, bound, count=False):
    """Array term A (or F(bound...) when the body mentions enclosing quantifier variables) with A[q] == body(q).
    count=True (the body is ite(c, 1, 0)): the instance  forall n. 0 <= SumA(A, n) <= max(n, 0)  of lemma SUM/count-bounds
    (contracts/lemmas.py, proved by induction on every run) is attached to the array."""
    V = list(bound)
    # canonical names for the abstracted variables, so that structurally equal bodies get the same key
    canon = [z3.Const('$v%d' % i, v.sort()) for i, v in enumerate(V)] + [z3.Int('$q')]
    lam = z3.substitute(body, *[(v, c) for v, c in zip(V + [j], canon)])
    key = (lam.get_id(), len(V))
    if key not in _named:
        k = len(_named); asort = z3.ArraySort(I, body.sort())
        if V:
            F = z3.Function('sumarr!%d' % k, *([v.sort() for v in V] + [asort])); sym = 'sumarr!%d' % k
            qs = [z3.Const('sv!%d_%d' % (k, i), v.sort()) for i, v in enumerate(V)]; q = z3.Int('sq!%d' % k)
            b = z3.substitute(body, *([(v, x) for v, x in zip(V, qs)] + [(j, q)]))
            ax = z3.ForAll(qs + [q], z3.Select(F(*qs), q) == b, patterns=[z3.Select(F(*qs), q)])
            mk = lambda vs: F(*vs)
        else:
            a = z3.Const('sumarr!%d' % k, asort); sym = 'sumarr!%d' % k
            q = z3.Int('sq!%d' % k)
            ax = z3.ForAll([q], z3.Select(a, q) == z3.substitute(body, (j, q)), patterns=[z3.Select(a, q)])
            mk = lambda vs: a
        _named[key] = [mk, lam, ax, sym, False, (qs if V else []), ]
    ent = _named[key]
    if count and not ent[4]:
        n = z3.Int('sn!%d' % len(_named)); A = ent[0](ent[5]) if ent[5] else ent[0]([])
        cb = z3.And(0 <= SumA(A, n), SumA(A, n) <= z3.If(n > 0, n, z3.IntVal(0)))
        ent[2] = z3.And(ent[2], z3.ForAll(ent[5] + [n], cb, patterns=[SumA(A, n)])); ent[4] = True
    return ent[0](V)


_sym_cache = {}


def symbols(t):
    """Names of the function symbols occurring in term t, plus '<q>' when it contains a quantifier or lambda
    (DAG walk with memoisation: printing large shared terms is exponential)."""
    k = t.get_id()
    if k in _sym_cache: return _sym_cache[k][1]
    out = set(); seen = set(); stack = [t]
    while stack:
        u = stack.pop(); i = u.get_id()
        if i in seen: continue
        seen.add(i)
        if z3.is_quantifier(u):
            out.add('<q>'); stack.append(u.body())
        elif z3.is_app(u):
            if u.num_args() > 0 or u.decl().kind() == z3.Z3_OP_UNINTERPRETED: out.add(u.decl().name())
            stack.extend(u.children())
    _sym_cache[k] = (t, out)
    return out


_opaque = {}


def opaque_fn(key, param_terms, body, name=''):
    """Named predicate / function: P(params) with the definitional axiom forall params. P(params) == body(params)
    (trigger P(params)).  Large invariant clauses then appear as atoms; they are unfolded only where a proof needs it."""
    if key not in _opaque:
        k = len(_opaque); sym = 'opq!%d' % k
        F = z3.Function(sym, *([t.sort() for t in param_terms] + [body.sort()]))
        qs = [z3.Const('ov!%d_%d' % (k, i), t.sort()) for i, t in enumerate(param_terms)]
        b = z3.substitute(body, *[(t, q) for t, q in zip(param_terms, qs)])
        ax = z3.ForAll(qs, F(*qs) == b, patterns=[F(*qs)]) if qs else (F() == b)
        _opaque[key] = (F, ax, sym, name)
    return _opaque[key][0]


def axioms_for(syms, sealed=()):
    """Definitional axioms needed by a VC that mentions the given symbols."""
    out = []
    if 'SumA' in syms: out += SUM_AXIOMS[:3]
    if 'SumR' in syms: out += SUM_AXIOMS[3:]
    for ent in _named.values():
        if ent[3] in syms: out.append(ent[2])
    for F, ax, sym, name in _opaque.values():
        if sym in syms and name not in sealed: out.append(ax)      # sealed: the predicate stays an atom in this function
    return out
