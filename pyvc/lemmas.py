"""Spec functions defined by recursion (unfolded by z3 on demand) and the lemma library."""
import z3
I = z3.IntSort(); R = z3.RealSort()
AI = z3.ArraySort(I, I); AR = z3.ArraySort(I, R)

_a = z3.Const('a', AI); _n = z3.Int('n')
SumA = z3.RecFunction('SumA', AI, I, I)
z3.RecAddDefinition(SumA, [_a, _n], z3.If(_n <= 0, z3.IntVal(0), SumA(_a, _n - 1) + z3.Select(_a, _n - 1)))

_r = z3.Const('r', AR)
SumR = z3.RecFunction('SumR', AR, I, R)
z3.RecAddDefinition(SumR, [_r, _n], z3.If(_n <= 0, z3.RealVal(0), SumR(_r, _n - 1) + z3.Select(_r, _n - 1)))


def Count(arr, n):
    return SumA(arr, n)
