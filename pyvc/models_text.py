"""The writer side of the lexical layer (T7 / T8): a string that is assembled in whole lines is seen as the list of its lines, each line as
the list of its blank-separated tokens - exactly the view `for line in f: line.replace(':', '').split()` has of the file.

What is modelled (everything else makes the function `undecided`, never a verdict):
  * literal pieces: a blank or tab separates tokens, '\\n' ends the line, ':' is deleted by the reader (recorded per line in `colon`),
    '(' and ')' are token characters;
  * str(int): a run of token characters without blank, colon or parenthesis (T6);
  * ' '.join(list of tokens): the tokens of the list, provided the join stands between separators (a blank, a line end or the line start);
  * a token is Plain n | Open "(n" | Close "n)" (the shape table of the reader); any other run of characters is outside the model;
  * an opaque text (the parameter block) may only be appended at the start of a line: it contributes an unknown number of further lines.
The text value is a term of datatype Text; nothing is assumed about it beyond the definition of the appended lines (fresh arrays constrained
by their defining equations, which always have a solution)."""
import z3
from .values import *
from .core import *

SEP = ' \t'
LITERAL_TOKENS = {'<': 3, '>': 4, 'no': 11, 'assignment': 12}          # token kinds beyond the reader's table (0 plain, 1 open, 2 close)
# listing view (result texts): tokens prefix + number + suffix; here ':' is a token character and '/' separates like a blank ("3/5" is seen as 3, 5)
LISTING_SHAPES = {('s_', ''): 5, ('p_', ''): 6, ('(l_', '):'): 7, ('(l_', ')'): 8, ('s_', ':'): 9, ('(p_', ')'): 10, ('l_', ':'): 14, ('(', ')'): 15}
NL_TOKEN = 13


def empty_text():
    return VText(Text.mk(z3.IntVal(0), z3.K(I, z3.IntVal(0)), z3.K(I, z3.K(I, Tok.mk(0, 0))), z3.K(I, z3.BoolVal(False))))


def _token(buf, listing=False):
    """Shape of one maximal run of token characters."""
    if listing:
        ints = [i for i, c in enumerate(buf) if isinstance(c, tuple)]
        if len(ints) == 1 and all(isinstance(c, str) for i, c in enumerate(buf) if i != ints[0]):
            pre = ''.join(buf[:ints[0]]); suf = ''.join(buf[ints[0] + 1:])
            if (pre, suf) in LISTING_SHAPES: return Tok.mk(LISTING_SHAPES[(pre, suf)], buf[ints[0]][1])
    if len(buf) == 1 and isinstance(buf[0], tuple): return Tok.mk(0, buf[0][1])
    if len(buf) == 2 and buf[0] == '(' and isinstance(buf[1], tuple): return Tok.mk(1, buf[1][1])
    if len(buf) == 2 and buf[1] == ')' and isinstance(buf[0], tuple): return Tok.mk(2, buf[0][1])
    if all(isinstance(c, str) for c in buf):
        s = ''.join(buf)
        if s in LITERAL_TOKENS: return Tok.mk(LITERAL_TOKENS[s], 0)
        for k, body in ((0, s), (1, s[1:] if s[:1] == '(' else None), (2, s[:-1] if s[-1:] == ')' else None)):
            if body is not None and body.isdigit() and (body == '0' or body[0] != '0'): return Tok.mk(k, int(body))
    raise Undecided('written characters %r match no token shape of the file format' % (buf,))


def line_tokens_append(ex, cur, r, p, line, in_loop=False, listing=False):
    """A local declared 'linetoks' (or an element of a declared list of token lines): a string under construction, seen as its blank-separated
    tokens.  Every piece appended inside a loop must end with a separator; a line break is a separator that also leaves the token NL (listing view)."""
    if isinstance(cur, VClosedToks): raise Undecided('a piece is appended directly after a token that was not followed by a separator')
    if isinstance(r, VList) and r.kind == 'tok':
        # string + string where both are token lines: the concatenation of the two token lists (each piece of either ended with a separator)
        if isinstance(r, VClosedToks): raise Undecided('concatenation with a closed token line')
        C = fresh('cat', z3.ArraySort(I, Tok)); q = fresh('q', I)
        p.assume(z3.ForAll([q], z3.Implies(z3.And(0 <= q, q < cur.len), z3.Select(C, q) == z3.Select(cur.arr, q)), patterns=[z3.Select(C, q)]))
        p.assume(z3.ForAll([q], z3.Implies(z3.And(cur.len <= q, q < cur.len + r.len), z3.Select(C, q) == z3.Select(r.arr, q - cur.len)), patterns=[z3.Select(C, q)]))
        return VList(cur.len + r.len, C, 'tok')
    lines, tail = tokenise(ex, VStr(list(r.atoms) + ['\n']), listing)
    if tail: raise Undecided('an opaque piece inside a token line')
    if len(lines) != 1 and not listing: raise Undecided('a line of tokens is appended to in pieces of one line')
    ends_sep = bool(r.atoms) and isinstance(r.atoms[-1], str) and r.atoms[-1][-1] in SEP + '\n'
    if not ends_sep and in_loop: raise Undecided('inside a loop every piece of a token line must end with a separator (the next piece would run into its last token)')
    if r.atoms and not any(segs for segs, _ in lines) and len(lines) == 1: raise Undecided('a piece of separators only (the string is not empty although it has no token)')
    out = cur
    for n, (segs, colon) in enumerate(lines):
        if colon: raise Undecided('a colon inside a token line')
        for sg in segs:
            if sg[0] != 'tok': raise Undecided('a joined list inside a token line')
            out = VList(out.len + 1, z3.Store(out.arr, out.len, sg[1]), 'tok')
        if n < len(lines) - 1: out = VList(out.len + 1, z3.Store(out.arr, out.len, Tok.mk(NL_TOKEN, 0)), 'tok')
    return out if ends_sep else VClosedToks(out.len, out.arr, 'tok')


def tokenise(ex, v, listing=False):
    """Skeleton -> (lines, tail) where lines = [(segments, has_colon)], segments = [('tok', term) | ('list', VList of tok)] and
    tail is True when an opaque text follows the last complete line."""
    items = []
    for a in v.atoms:
        if isinstance(a, str): items.extend(a)
        elif isinstance(a, tuple) and a[0] == 'int': items.append(('int', a[1]))
        elif isinstance(a, tuple) and a[0] == 'join':
            sep, lst = a[1], a[2]
            if isinstance(lst, VStr) and not lst.atoms: continue              # ' '.join('') == ''
            if isinstance(lst, VCList) and not lst.items: continue            # ' '.join([]) == ''
            if sep != ' ' or not (isinstance(lst, VList) and lst.kind == 'tok'): raise Undecided('join of %r with separator %r inside a written line' % (lst, sep))
            items.append(('list', lst))
        elif isinstance(a, tuple) and a[0] in ('opaque', 'pure'): items.append(('opaque',))
        else: raise Undecided('piece %r of a written line is outside the text model' % (a,))
    lines = []; segs = []; buf = []; colon = False; tail = False; need_sep = False
    def flush():
        if buf: segs.append(('tok', _token(list(buf), listing))); buf.clear()
    for it in items:
        if tail: raise Undecided('text appended after an opaque block')
        if isinstance(it, str):
            if it == '\n': flush(); lines.append((segs, colon)); segs = []; colon = False; need_sep = False
            elif it in SEP or (listing and it == '/'): flush(); need_sep = False
            elif it == ':' and not listing: colon = True        # deleted by the reader: what stands on both sides of it runs together
            else:
                if need_sep: raise Undecided('characters directly after a joined list')
                buf.append(it)
        elif it[0] == 'int':
            if need_sep: raise Undecided('a number directly after a joined list')
            buf.append(it)
        elif it[0] == 'list':
            if buf or need_sep: raise Undecided('a joined list directly after other characters')
            segs.append(it); need_sep = True
        elif it[0] == 'opaque':
            if buf or segs or colon: raise Undecided('an opaque text in the middle of a line')
            tail = True
    if buf or segs or colon: raise Undecided('a text is appended in whole lines only (the last piece does not end with a line break)')
    return lines, tail


def line_term(ex, p, segs):
    """(number of tokens, token array) of one written line."""
    A = fresh('line', z3.ArraySort(I, Tok)); off = z3.IntVal(0)
    for s in segs:
        if s[0] == 'tok':
            p.assume(z3.Select(A, z3.simplify(off)) == s[1]); off = off + 1
        else:
            L = s[1]; q = fresh('q', I); o = z3.simplify(off)
            p.assume(z3.ForAll([q], z3.Implies(z3.And(o <= q, q < o + L.len), z3.Select(A, q) == z3.Select(L.arr, q - o)), patterns=[z3.Select(A, q)]))
            p.assume(L.len >= 0)
            off = off + L.len
    return z3.simplify(off), A


def text_append(ex, cur, r, p, line):
    lines, tail = tokenise(ex, r)
    t = cur.t
    for segs, colon in lines:
        n, A = line_term(ex, p, segs); nl = Text.nlines(t)
        t = Text.mk(nl + 1, z3.Store(Text.ntok(t), nl, n), z3.Store(Text.tok(t), nl, A), z3.Store(Text.colon(t), nl, z3.BoolVal(colon)))
    t = z3.simplify(t)
    if tail:
        t2 = fresh('text', Text); i = fresh('i', I)
        p.assume(Text.nlines(t2) >= Text.nlines(t))
        p.assume(z3.ForAll([i], z3.Implies(z3.And(0 <= i, i < Text.nlines(t)),
                 z3.And(z3.Select(Text.ntok(t2), i) == z3.Select(Text.ntok(t), i), z3.Select(Text.tok(t2), i) == z3.Select(Text.tok(t), i),
                        z3.Select(Text.colon(t2), i) == z3.Select(Text.colon(t), i)))))
        t = t2
    return VText(t)


# ---- specification functions: text_len(T), text_toks(T, i), text_colon(T, i)
def _text_arg(ex, e, p):
    v = ex.ev(e.args[0], p)
    if not isinstance(v, VText): raise StaleContract('text_* applied to %r' % (v,))
    return v.t


def spec_text_len(ex, e, p): return VInt(Text.nlines(_text_arg(ex, e, p)))
def spec_text_toks(ex, e, p):
    t = _text_arg(ex, e, p); i = ex.ev(e.args[1], p).t
    return VList(z3.Select(Text.ntok(t), i), z3.Select(Text.tok(t), i), 'tok')
def spec_text_colon(ex, e, p):
    t = _text_arg(ex, e, p); i = ex.ev(e.args[1], p).t
    return VBool(z3.Select(Text.colon(t), i))


# ---- lines of a listing: a string built from literal pieces and at most three str(int) (template with holes).  The template id is a stable
#      hash of the literal skeleton, so equal templates are equal ids in every run; '' is template 0.  Two strings of this shape are equal
#      iff template and integers are equal (T5).
import hashlib


def tpl_id(template):
    return 0 if template == '' else 1 + int(hashlib.sha1(template.encode()).hexdigest()[:7], 16)


class StrLineShape:
    def encode(self, ex, v):
        if len(v.atoms) == 1 and isinstance(v.atoms[0], tuple) and v.atoms[0][0] == 'shaped': return v.atoms[0][2]
        parts = []; ints = []
        for a in v.atoms:
            if isinstance(a, str):
                if '{}' in a: raise Undecided('literal braces in a listing line')
                parts.append(a)
            elif isinstance(a, tuple) and a[0] == 'int': parts.append('{}'); ints.append(a[1])
            else: raise Undecided('piece %r of a listing line is outside the line-template model' % (a,))
        if len(ints) > 3: raise Undecided('more than three numbers in one listing line')
        ints += [z3.IntVal(0)] * (3 - len(ints))
        return StrLine.mk(z3.IntVal(tpl_id(''.join(parts))), *ints)

    def decode(self, ex, t):
        return VStr([('shaped', 'strline', t)])


def _shaped_term(ex, v):
    if isinstance(v, VStr) and len(v.atoms) == 1 and isinstance(v.atoms[0], tuple) and v.atoms[0][0] == 'shaped': return v.atoms[0][2]
    if isinstance(v, VStr): return StrLineShape().encode(ex, v)
    raise StaleContract('line_* applied to %r' % (v,))


def spec_line_tpl(ex, e, p): return VInt(StrLine.tpl(_shaped_term(ex, ex.ev(e.args[0], p))))
def spec_line_arg(ex, e, p):
    t = _shaped_term(ex, ex.ev(e.args[0], p)); k = e.args[1].value
    return VInt([StrLine.a0, StrLine.a1, StrLine.a2][k](t))
def spec_tpl(ex, e, p): return VInt(tpl_id(e.args[0].value))


def install(ex):
    ex.shapes['strline'] = StrLineShape()
    ex.spec_ext['line_tpl'] = spec_line_tpl; ex.spec_ext['line_arg'] = spec_line_arg; ex.spec_ext['tpl'] = spec_tpl
    ex.spec_ext['text_len'] = spec_text_len; ex.spec_ext['text_toks'] = spec_text_toks; ex.spec_ext['text_colon'] = spec_text_colon
