"""Discharging verification conditions: one z3 query per VC, fork-based worker pool."""
import os, time, multiprocessing as mp
import z3

_VCS = []
RLIMIT = int(os.environ.get('PYVC_RLIMIT', '600000000'))
TIMEOUT_MS = int(os.environ.get('PYVC_TIMEOUT_MS', '45000'))


FAST_RLIMIT = int(os.environ.get('PYVC_FAST_RLIMIT', '3000000'))
MBQI_TIMEOUT_MS = int(os.environ.get('PYVC_MBQI_TIMEOUT_MS', '30000'))
SHORT_PLAN = False
COVER_TIMEOUT_MS = int(os.environ.get('PYVC_COVER_TIMEOUT_MS', '15000'))      # vacuity (reachability) queries: 'unknown' is tolerated, only 'unsat' is an error
EMATCH_RLIMIT = int(os.environ.get('PYVC_EMATCH_RLIMIT', '8000000'))


def _has_quantifier(vc):
    return any('forall' in h.sexpr() or 'exists' in h.sexpr() or 'lambda' in h.sexpr() for h in vc.hyps) or 'forall' in vc.goal.sexpr() or 'exists' in vc.goal.sexpr()


def _solve(i, rlimit=None):
    vc = _VCS[i]; t0 = time.time()
    # configuration 0: sliced hypotheses, E-matching only; 1: all hypotheses, E-matching only (no model-based quantifier
    # instantiation): decides almost every valid VC in milliseconds; 2: z3's default configuration, which can also produce
    # counter-models.  An 'unsat' under any configuration / seed is a proof.
    # E-matching proofs either come within seconds or not at all (they depend on the instantiation order), so the full pass
    # tries several short runs with different random seeds before the long ones (restart strategy).
    r = None
    quant = vc.quant
    if not (quant and vc.expect != 'sat'):
        plan = [(2, 0, COVER_TIMEOUT_MS if vc.expect == 'sat' else (MBQI_TIMEOUT_MS if quant else TIMEOUT_MS))]
    elif rlimit:      # fast pass: bounded by the resource limit
        plan = ([(0, 0, TIMEOUT_MS)] if vc.drop else []) + [(1, 0, TIMEOUT_MS), (2, 0, MBQI_TIMEOUT_MS)]
    elif SHORT_PLAN:      # seeded-edit runs (thorough tier): the obligations that matter are expected to fail, so no restarts
        plan = ([(0, 0, 15000)] if vc.drop else []) + [(1, 0, 20000), (2, 0, MBQI_TIMEOUT_MS)]
    else:
        plan = ([(0, 0, 15000)] if vc.drop else []) + [(1, 0, 20000)] + ([(0, 11, 15000)] if vc.drop else []) + [(1, 11, 20000), (1, 5, TIMEOUT_MS), (2, 0, MBQI_TIMEOUT_MS)]
    for attempt, seed, tmo in plan:
        s = z3.Solver()
        hyps = vc.hyps
        if attempt == 0:
            dr = set(vc.drop); hyps = [h for i, h in enumerate(vc.hyps) if i not in dr]
        if attempt in (0, 1):
            s.set('auto_config', False); s.set('mbqi', False); s.set('rlimit', min(rlimit, EMATCH_RLIMIT) if rlimit else RLIMIT)
        else:
            s.set('rlimit', rlimit or RLIMIT)
        if seed: s.set('random_seed', seed)
        s.set('timeout', tmo)
        # normalise arithmetic sub-terms (R - k - 1 vs R + -1*k - 1) so that equal index expressions are syntactically equal
        for h in hyps: s.add(z3.simplify(h, som=True))
        s.add(z3.simplify(z3.Not(vc.goal), som=True))
        try: r = s.check()
        except z3.Z3Exception as ex:
            return i, 'unknown', time.time() - t0, 'z3 exception: %s' % ex
        if r == z3.unsat: break
    model = None
    if r == z3.sat:
        try:
            m = s.model()
            model = '; '.join('%s = %s' % (d, m[d]) for d in sorted(m.decls(), key=str)
                              if d.arity() == 0 and '!' not in str(d) and len(str(m[d])) < 80)[:4000]
        except Exception as ex: model = 'model unavailable: %s' % ex
    elif r == z3.unknown:
        model = s.reason_unknown()
    return i, str(r), time.time() - t0, model


def _solve_fast(i): return _solve(i, FAST_RLIMIT)


def _pool_map(fn, idxs, jobs):
    """Map over a fork-based process pool; a worker that dies (solver crash) costs only its own VCs (reported unknown)."""
    from concurrent.futures import ProcessPoolExecutor
    from concurrent.futures.process import BrokenProcessPool
    out = {}
    todo = list(idxs)
    for attempt in range(3):
        if not todo: break
        try:
            with ProcessPoolExecutor(max_workers=min(jobs, len(todo)), mp_context=mp.get_context('fork')) as ex:
                futs = {i: ex.submit(fn, i) for i in todo}
                for i, f in futs.items():
                    try: out[i] = f.result()
                    except BrokenProcessPool: pass
                    except Exception as e: out[i] = (i, 'unknown', 0.0, 'worker error: %s' % e)
        except BrokenProcessPool:
            pass
        todo = [i for i in todo if i not in out]
        jobs = max(1, jobs // 4)
    for i in todo: out[i] = (i, 'unknown', 0.0, 'solver process crashed')
    return [out[i] for i in idxs]


def discharge(vcs, jobs=None):
    """Sets vc.result ('unsat'|'sat'|'unknown'), vc.time, vc.model on each VC."""
    global _VCS
    _VCS = vcs
    jobs = jobs or min(16, os.cpu_count() or 1)
    # pass 1: sequential with a small resource budget (most VCs take milliseconds)
    res = {}; hard = []; t0 = time.time()
    if len(vcs) > 80 and jobs > 1:
        # many VCs: the cheap pass runs in the pool as well (round-robin chunks keep the expensive ones apart)
        for r in _pool_map(_solve_fast, list(range(len(vcs))), jobs):
            if r[1] == 'unknown': hard.append(r[0])
            res[r[0]] = r
    else:
        for i in range(len(vcs)):
            r = _solve(i, FAST_RLIMIT)
            if r[1] == 'unknown': hard.append(i)
            res[i] = r
    t1 = time.time()
    # pass 2: the rest in a fork-based pool with the full budget
    if hard:
        if len(hard) == 1 or jobs == 1:
            for i in hard: res[i] = _solve(i)
        else:
            for r in _pool_map(_solve, hard, jobs): res[r[0]] = (r[0], r[1], r[2] + res[r[0]][2], r[3])
    if os.environ.get('PYVC_DEBUG'): print('discharge: pass1 %.1fs (%d VCs), pass2 %.1fs (%d VCs)' % (t1 - t0, len(vcs), time.time() - t1, len(hard)))
    for i, (_, r, t, m) in res.items():
        vcs[i].result = r; vcs[i].time = t; vcs[i].model = m
        if r == 'sat' and m:
            try: vcs[i].model_dict = dict(x.split(' = ', 1) for x in m.split('; ') if ' = ' in x)
            except Exception: vcs[i].model_dict = None
    return vcs


def status(vc):
    """proved | refuted | undecided   (cover VCs: 'sat' expected)."""
    if vc.expect == 'sat':
        # vacuity guard: only a PROVED contradiction (unsat) fails it; 'unknown' (no model found under quantified axioms) is
        # counted separately in evidence (covers_unknown) and does not block
        return 'refuted' if vc.result == 'unsat' else 'proved'
    if vc.kind == 'frame' and z3.is_false(vc.goal) and vc.result != 'unsat':
        return 'refuted'      # a write outside the frame on a path that could not be shown infeasible (a syntactic frame violation)
    return 'proved' if vc.result == 'unsat' else ('refuted' if vc.result == 'sat' else 'undecided')
