"""./check Cxx --tier quick|thorough     |     ./check --replay <file>
Exit 0 property held; 1 VIOLATION (line printed); 2 undecided; 3 checker error."""
import sys, os, json, time, argparse, subprocess, traceback, importlib, hashlib

VERIF = os.path.dirname(os.path.dirname(os.path.abspath(__file__)))
sys.path.insert(0, VERIF)
from pyvc import source, engine, vc as vcmod          # noqa: E402
from pyvc.core import Undecided, StaleContract         # noqa: E402

VENV_PY = '/venv/bin/python'
GLOBAL_LEMMAS = ['SUM/count-bounds']        # justify facts the engine instantiates by itself; proved on every run of every property


def load_all():
    import contracts.vocabulary as voc, contracts.schema as sch, contracts.lemmas as lem
    C = {}
    for f in sorted(os.listdir(os.path.join(VERIF, 'contracts'))):
        if f.endswith('.py') and f not in ('__init__.py', 'vocabulary.py', 'schema.py', 'lemmas.py', 'props.py'):
            mod = importlib.import_module('contracts.' + f[:-3])
            C.update(getattr(mod, 'CONTRACTS', {}))
    return C, voc.DEFS, sch.CLASSES, lem.LEMMAS


def model_modules():
    out = []
    for f in sorted(os.listdir(os.path.join(VERIF, 'pyvc'))):
        if f.startswith('models_') and f.endswith('.py'):
            out.append(importlib.import_module('pyvc.' + f[:-3]))
    return out


def scan_assumptions():
    """Mechanical scan of the sidecars for assumption-like constructs (DESIGN section 9)."""
    hits = []
    for f in sorted(os.listdir(os.path.join(VERIF, 'contracts'))):
        if not f.endswith('.py'): continue
        for i, line in enumerate(open(os.path.join(VERIF, 'contracts', f)), 1):
            for w in ('assume_axiom', 'trusted', 'use_axiom', 'admit'):
                if w in line and not line.lstrip().startswith('#'):
                    hits.append('%s:%d: %s' % (f, i, line.strip()[:120]))
    return hits


def rename_contracts(prop, repo, C):
    """Sidecar contracts name loop accumulators and other locals.  If a function's locals were RENAMED since the baseline (same number of
    bound names, same positions), the contract is rewritten to the new names instead of going stale: a harmless rename must not alarm."""
    import re, copy
    base = load_baseline(prop); out = dict(C); notes = []
    for key, b in base.items():
        fn = repo.funcs.get(key); old = b.get('locals') if isinstance(b, dict) else None
        if fn is None or not old or key not in C or old == fn.local_order or len(old) != len(fn.local_order): continue
        ren = {o: n for o, n in zip(old, fn.local_order) if o != n}
        if len(set(ren.values())) != len(ren) or set(ren.values()) & set(old): continue          # not a clean renaming
        def rw(x):
            if isinstance(x, str):
                for o, n in ren.items(): x = re.sub(r"(?<![\.\w'\"])%s(?![\w'\"])" % re.escape(o), n, x)
                return x
            if isinstance(x, dict): return {k: rw(v) for k, v in x.items()}
            if isinstance(x, (list, tuple)): return type(x)(rw(v) for v in x)
            return x
        out[key] = rw(copy.deepcopy(C[key]))
        for dk in ('locals', 'late_locals', 'params'):          # dictionaries keyed by local / parameter names
            if dk in out[key]: out[key][dk] = {ren.get(k, k): v for k, v in out[key][dk].items()}
        notes.append('%s: %s' % (key, ', '.join('%s->%s' % kv for kv in ren.items())))
    return out, notes


def generate(prop, spec, repo, C, defs, classes, LEMMAS, mode_filter=None):
    """Returns (vcs, infos, undecided) for the functions and lemmas of one property."""
    vcs = []; infos = []; und = []
    C, renamed = rename_contracts(prop, repo, C)
    for r in renamed: print('NOTE: locals renamed since the baseline, contract follows: ' + r)
    for item in spec['functions']:
        key, opts = (item, {}) if isinstance(item, str) else item
        ex = engine.Exec(repo, C, classes, defs, model_modules()); ex.all_lemmas = LEMMAS
        for k, v in opts.items(): setattr(ex, k, v)
        t0 = time.time()
        try:
            v, info = ex.verify(key)
        except (Undecided, StaleContract) as e:
            und.append(dict(function=key, reason=('%s: %s' % (type(e).__name__, e))[:400])); continue
        except KeyError as e:
            und.append(dict(function=key, reason='missing: %s' % e, missing=True)); continue
        info['gen_s'] = round(time.time() - t0, 3)
        if opts: info['mode'] = {k: str(v) for k, v in opts.items()}
        tag = ('[%s]' % ','.join(modetag(v) for v in opts.values())) if opts else ''
        for x in v: x.name = '%s/%s%s/%s' % (prop, key.split(':')[1], tag, x.name); x.mode = opts
        vcs += v; infos.append(info)
    for name in list(spec.get('lemmas', [])) + [l for l in GLOBAL_LEMMAS if spec.get('lemmas') is not None and l not in spec.get('lemmas', [])]:
        ex = engine.Exec(repo, C, classes, defs, model_modules()); ex.all_lemmas = LEMMAS
        try:
            v, info = ex.verify_lemma(name, LEMMAS[name])
        except (Undecided, StaleContract) as e:
            und.append(dict(function='lemma:' + name, reason=('%s: %s' % (type(e).__name__, e))[:400])); continue
        for x in v: x.name = '%s/lemma:%s/%s' % (prop, name.split('/', 1)[-1], x.name)
        vcs += v; infos.append(info)
    return vcs, infos, und


def run_mutants(prop, spec, repo, infos, C, defs, classes, LEMMAS):
    """Thorough tier: every catalogued edit of this property (selftest/catalogue.py) is applied in memory to the source text
    and the affected functions are re-verified; an edit is killed when some obligation is no longer discharged."""
    from selftest import catalogue
    out = []
    for mu in [x for x in catalogue.M if x['prop'] == prop]:
        src = repo.src[mu['module']]
        if src.count(mu['old']) < 1:
            out.append(dict(mu, status='not-applicable (text not present in current source)')); continue
        try:
            rm = source.Repo(overrides={mu['module']: src.replace(mu['old'], mu['new'], 1)})
        except SyntaxError as e:
            out.append(dict(mu, status='not-applicable (syntax: %s)' % e)); continue
        changed = {k for k, f in rm.funcs.items() if k not in repo.funcs or repo.funcs[k].sha256 != f.sha256}
        items = []
        for item in spec['functions']:
            key = item if isinstance(item, str) else item[0]
            inl = next((set(i.get('inlined', {})) for i in infos if i['function'] == key), set())
            if key in changed or inl & changed: items.append(item)
        if not items:
            out.append(dict(mu, status='survived', reason='no function under contract for this property contains the edit')); continue
        t0 = time.time()
        vcs, _, und = generate(prop, dict(functions=items), rm, C, defs, classes, LEMMAS)
        vcmod.SHORT_PLAN = True
        try: vcmod.discharge(vcs)
        finally: vcmod.SHORT_PLAN = False
        bad = [v for v in vcs if vcmod.status(v) != 'proved' and not (v.expect == 'sat' and v.result != 'unsat')]
        st = 'killed' if (bad or und) else 'survived'
        out.append(dict(mu, status=st, obligations=len(vcs), time_s=round(time.time() - t0, 1),
                        failed=[v.name + ':' + vcmod.status(v) for v in bad[:4]] + ['function ' + u['function'] + ': ' + u['reason'][:80] for u in und[:2]]))
    return out


def modetag(v):
    if isinstance(v, dict): return ','.join(('%s=%s' % kv) if isinstance(kv[1], str) else str(kv[0]) for kv in sorted(v.items()))
    if isinstance(v, (set, frozenset, list, tuple)): return 'inlined:' + '+'.join(sorted(str(x).split('.')[-1] for x in v))
    return str(v)


def run_harness(prop, mode, seed, budget, tier, extra=None, infile=None, models=None):
    """Runs the bounded stand-in / replay harness on the REAL code under /venv/bin/python."""
    env = dict(os.environ); env['PYTHONPATH'] = source.REPO + os.pathsep + VERIF
    env['PYTHONHASHSEED'] = '0'
    cmd = [VENV_PY, os.path.join(VERIF, 'replay', 'harness.py'), prop, '--mode', mode, '--seed', str(seed),
           '--budget', str(budget), '--tier', tier]
    if infile: cmd += ['--file', infile]
    if extra: cmd += ['--focus', extra]
    mf = None
    if models:
        import tempfile
        mf = tempfile.NamedTemporaryFile('w', suffix='.json', delete=False); json.dump(models, mf, default=str); mf.close()
        cmd += ['--models', mf.name]
    try:
        r = subprocess.run(cmd, env=env, capture_output=True, text=True, timeout=budget * 4 + 600)
    except subprocess.TimeoutExpired:
        return dict(error='harness timeout')
    finally:
        if mf: os.unlink(mf.name)
    try:
        return json.loads(r.stdout.strip().splitlines()[-1])
    except Exception:
        return dict(error='harness failed rc=%d: %s' % (r.returncode, (r.stderr or r.stdout)[-1500:]))


def known_findings():
    p = os.path.join(VERIF, 'known_findings.json')
    if not os.path.exists(p): return []
    return json.load(open(p)).get('findings', [])


def load_baseline(prop):
    p = os.path.join(VERIF, 'baseline', prop + '.json')
    if not os.path.exists(p): return {}
    try: return json.load(open(p))
    except Exception: return {}


def match_known(prop, obligation, witness=None):
    for f in known_findings():
        if f.get('state') != 'open' or f.get('property') != prop: continue
        if obligation is not None and f.get('obligation') and obligation.startswith(f['obligation']): return f
        if witness is not None and f.get('witness_kind') and f.get('witness_kind') == witness: return f
    return None


def main(argv):
    ap = argparse.ArgumentParser()
    ap.add_argument('prop', nargs='?')
    ap.add_argument('--tier', default=os.environ.get('VERIF_TIER', 'quick'))
    ap.add_argument('--replay')
    ap.add_argument('--list', action='store_true')
    a = ap.parse_args(argv)
    seed = int(os.environ.get('VERIF_SEED', '0') or 0)
    import contracts.props as props
    if a.replay:
        rep = json.load(open(a.replay))
        res = run_harness(rep['property'], 'replay', seed, 60, 'quick', infile=a.replay)
        print(json.dumps(res, indent=1))
        if res.get('error'): return 3
        if res.get('failures'):
            print('VIOLATION property=%s replay=%s' % (rep['property'], a.replay)); return 1
        print('replay: the real code now agrees with the specification on this input'); return 0
    if a.list or not a.prop:
        for k in sorted(props.PROPS): print(k, props.PROPS[k].get('title', ''))
        return 0
    prop = a.prop; tier = a.tier if a.tier in ('quick', 'thorough') else 'quick'
    if prop not in props.PROPS:
        print('no check for ' + prop); return 3
    spec = props.PROPS[prop]
    t0 = time.time()
    try:
        repo = source.Repo()
    except SyntaxError as e:
        print('ERROR: repository source does not parse: %s' % e); return 3
    C, defs, classes, LEMMAS = load_all()
    vcs, infos, und = generate(prop, spec, repo, C, defs, classes, LEMMAS)
    tgen = time.time() - t0
    if not vcs and not und:
        print('ERROR: zero obligations generated for ' + prop); return 3
    vcmod.discharge(vcs)
    # second back end (thorough): cvc5 on the quantifier-free VCs
    backends = {'z3': len(vcs)}
    if tier == 'thorough' and spec.get('cvc5', True):
        from pyvc import cvc5_backend
        backends['cvc5'] = cvc5_backend.recheck(vcs)
        if backends['cvc5']['disagree']:
            for n in backends['cvc5']['disagreements']: print('ERROR: cvc5 finds a counter-model for an obligation z3 discharged: ' + n)
            write_evidence(prop, tier, seed, spec, vcs, infos, und, None, backends, time.time() - t0, 0, note='back ends disagree')
            return 3
    proved = [v for v in vcs if vcmod.status(v) == 'proved']
    refuted = [v for v in vcs if vcmod.status(v) == 'refuted']
    undec = [v for v in vcs if vcmod.status(v) == 'undecided']
    # vacuity: a cover VC that is not 'sat' is a checker error
    vac = [v for v in refuted + undec if v.expect == 'sat']
    if vac:
        for v in vac: print('ERROR: vacuous precondition / unreachable: %s (%s)' % (v.name, v.result))
        write_evidence(prop, tier, seed, spec, vcs, infos, und, None, backends, time.time() - t0, 0, note='vacuity failure')
        return 3
    # bounded stand-in / counterexample search on the real code
    budget = spec.get('budget', {}).get(tier, 8 if tier == 'quick' else 90)
    focus = ','.join(sorted({v.func for v in refuted})) or None
    hres = None
    if spec.get('harness'):
        models = []
        for v in refuted:
            if v.model_dict:
                m = dict(v.model_dict); m['__mode__'] = v.mode.get('argv_fixed') if v.mode else None; m['__obligation__'] = v.name
                models.append(m)
        hres = run_harness(prop, 'search', seed, budget, tier, extra=focus, models=models[:20])
        if hres.get('error'):
            print('ERROR: bounded harness: ' + hres['error'])
            write_evidence(prop, tier, seed, spec, vcs, infos, und, hres, backends, time.time() - t0, 0, note='harness error')
            return 3
    os.makedirs(os.path.join(VERIF, 'replays', prop), exist_ok=True)
    violations = []; known = []
    fails = (hres or {}).get('failures', [])
    # --- refuted obligations
    for v in refuted:
        kf = match_known(prop, v.name)
        witness = next((f for f in fails if not f.get('used')), None)
        for f in fails:
            if f.get('function') and f['function'] in v.name: witness = f; break
        rp = os.path.join(VERIF, 'replays', prop, hashlib.sha1(v.name.encode()).hexdigest()[:12] + '.json')
        rec = dict(property=prop, obligation=v.name,
                   function=next((dict(file=i['file'], qualname=i['function'], lines=i['lines'], sha256=i['sha256'])
                                  for i in infos if i['function'] == v.func), {}),
                   verifier=dict(backend='z3', result=v.result, model=v.model, kind=v.kind, line=v.line),
                   confirmed=bool(witness))
        if witness:
            rec.update(kind=witness.get('kind'), input=witness.get('input'), expected=witness.get('expected'),
                       observed=witness.get('observed'))
        if kf:
            known.append((v.name, kf)); continue
        json.dump(rec, open(rp, 'w'), indent=1, default=str)
        violations.append((rp, bool(witness), v.name))
    # --- obligations that could not be discharged AND a failing input of the same function found on the real code:
    #     the undischarged obligation is reported as the violation, with the replayed input
    used_fail = set()
    if not refuted and (undec or und) and fails:
        for v in undec:
            for n, f in enumerate(fails):
                fnname = (f.get('function') or '').split('.')[-1]
                exact = any((g.get('function') or '').split('.')[-1] in u.name for g in fails for u in undec if g.get('function'))
                if n not in used_fail and ((fnname and fnname in v.name) or not exact):
                    if match_known(prop, v.name): break
                    used_fail.add(n)
                    rp = os.path.join(VERIF, 'replays', prop, hashlib.sha1(v.name.encode()).hexdigest()[:12] + '.json')
                    rec = dict(property=prop, obligation=v.name, kind=f.get('kind'), input=f.get('input'), expected=f.get('expected'),
                               observed=f.get('observed'), confirmed=True,
                               verifier=dict(backend='z3', result=v.result, reason=v.model, kind=v.kind, line=v.line,
                                             note='obligation no longer discharged (solver: %s); failing input found by the bounded search and replayed on the real code' % v.result))
                    json.dump(rec, open(rp, 'w'), indent=1, default=str)
                    violations.append((rp, True, v.name)); break
        fails = [f for n, f in enumerate(fails) if n not in used_fail] if violations else fails
    # --- failures found only by the bounded stand-in (all deductive obligations of that part discharged)
    if not refuted and not violations:
        for n, f in enumerate(fails[:5]):
            kf = match_known(prop, None, f.get('kind'))
            if kf: known.append((f.get('kind'), kf)); continue
            rp = os.path.join(VERIF, 'replays', prop, 'bounded-%d.json' % n)
            rec = dict(property=prop, obligation='%s/bounded-stand-in/%s' % (prop, f.get('kind')), kind=f.get('kind'),
                       input=f.get('input'), expected=f.get('expected'), observed=f.get('observed'), confirmed=True,
                       verifier=dict(backend='none', note='found by the bounded stand-in on the real code; every '
                                     'deductive obligation was discharged, so the failing behaviour lies outside the '
                                     'functions under contract or in a trusted model'))
            json.dump(rec, open(rp, 'w'), indent=1, default=str)
            violations.append((rp, True, rec['obligation']))
    # --- obligations that were discharged on the baseline tree (baseline/<prop>.json, committed) and cannot be discharged now,
    #     in a function whose source text changed: reported as violations with the solver's reason (no failing input)
    base = load_baseline(prop)
    sha_now = {i['function']: i['sha256'] for i in infos}
    for i in infos: sha_now.update(i.get('inlined', {}))
    reported = {name for _, _, name in violations}
    if base and not refuted:
        for v in undec:
            b = base.get(v.func)
            if not b or v.name in reported or v.name not in b['proved']: continue
            root = next((i['function'] for i in infos if i['function'].split(':')[1] in v.name), v.func)
            # verification is modular: an obligation of function F depends on the source of F and of the helpers inlined into F (and on
            # contracts); a change elsewhere cannot have broken it, so with F's own text unchanged this is solver instability, not a code change
            own = next((i for i in infos if i['function'] == v.func), None)
            hs = dict(own.get('inlined', {})) if own else {}
            if own: hs[v.func] = own['sha256']
            changed = any(f in base and h and base[f].get('sha256') and base[f]['sha256'] != h for f, h in hs.items())
            if not changed: continue
            if match_known(prop, v.name): known.append((v.name, match_known(prop, v.name))); continue
            rp = os.path.join(VERIF, 'replays', prop, hashlib.sha1(v.name.encode()).hexdigest()[:12] + '.json')
            rec = dict(property=prop, obligation=v.name, confirmed=False,
                       function=dict(qualname=v.func, sha256_now=sha_now.get(v.func), sha256_baseline=b.get('sha256')),
                       verifier=dict(backend='z3', result=v.result, reason=v.model, kind=v.kind, line=v.line,
                                     note='this obligation was discharged on the baseline tree and is not discharged on the current, changed source; '
                                          'the solver gave no counter-model and the bounded search found no failing input'))
            json.dump(rec, open(rp, 'w'), indent=1, default=str)
            violations.append((rp, False, v.name))
    # --- a function that was verified on the baseline tree and can no longer be brought under contract (it left the supported
    #     subset or the contract no longer matches) after its source changed: its obligations are undischarged
    if base and not refuted:
        for u in und:
            f = u['function']; fn = repo.funcs.get(f)
            if f not in base or fn is None or not base[f].get('sha256') or base[f]['sha256'] == fn.sha256: continue
            name = '%s/%s/contract-no-longer-applies' % (prop, f.split(':')[1])
            if name in reported or match_known(prop, name): continue
            wit = next((x for x in fails if (x.get('function') or '').split('.')[-1] in f), None) or (fails[0] if fails else None)
            rp = os.path.join(VERIF, 'replays', prop, hashlib.sha1(name.encode()).hexdigest()[:12] + '.json')
            rec = dict(property=prop, obligation=name, confirmed=bool(wit), function=dict(qualname=f, sha256_now=fn.sha256, sha256_baseline=base[f]['sha256']),
                       verifier=dict(backend='pyvc', result='undecided', reason=u['reason'],
                                     note='every obligation of this function was discharged on the baseline tree; on the changed source the function can no longer be verified'))
            if wit: rec.update(kind=wit.get('kind'), input=wit.get('input'), expected=wit.get('expected'), observed=wit.get('observed'))
            json.dump(rec, open(rp, 'w'), indent=1, default=str)
            violations = [x for x in violations if 'bounded-stand-in' not in x[2]] if wit else violations
            violations.append((rp, bool(wit), name)); reported.add(name)
    mutants = None
    if tier == 'thorough' and not violations and not refuted and not undec and not und:
        mutants = run_mutants(prop, spec, repo, infos, C, defs, classes, LEMMAS)
    wall = time.time() - t0
    write_evidence(prop, tier, seed, spec, vcs, infos, und, hres, backends, wall, len(violations), mutants=mutants)
    if os.environ.get('PYVC_WRITE_BASELINE') and not violations and not undec and not und and not refuted:
        os.makedirs(os.path.join(VERIF, 'baseline'), exist_ok=True)
        bl = {}
        for i in infos:
            bl[i['function']] = dict(sha256=i['sha256'], proved=[], locals=(repo.funcs[i['function']].local_order if i['function'] in repo.funcs else None))
            for k, h in i.get('inlined', {}).items(): bl.setdefault(k, dict(sha256=h, proved=[], locals=(repo.funcs[k].local_order if k in repo.funcs else None)))
        for v in vcs:
            if vcmod.status(v) == 'proved' and v.expect != 'sat': bl.setdefault(v.func, dict(sha256='', proved=[]))['proved'].append(v.name)
        for k in bl: bl[k]['proved'] = sorted(set(bl[k]['proved']))
        json.dump(bl, open(os.path.join(VERIF, 'baseline', prop + '.json'), 'w'), indent=0, sort_keys=True)
    print('%s tier=%s: %d obligations, %d discharged, %d refuted, %d undecided; functions undecided: %d; '
          'bounded stand-in: %s evaluations, %d failures; %.1fs'
          % (prop, tier, len(vcs), len(proved), len(refuted), len(undec), len(und),
             (hres or {}).get('evaluations', 0), len(fails), wall))
    for name, kf in known:
        print('KNOWN-FINDING: property=%s %s (%s)' % (prop, kf.get('what', ''), name))
    for v in undec: print('UNDECIDED obligation %s: %s' % (v.name, v.model))
    for u in und: print('UNDECIDED function %s: %s' % (u['function'], u['reason']))
    if mutants is not None:
        killed = [x for x in mutants if x['status'] == 'killed']
        surv = [x for x in mutants if x['status'] == 'survived' and not x['equivalent']]
        print('selftest: %d catalogued edits, %d killed, %d documented-equivalent, %d not applicable, %d SURVIVED'
              % (len(mutants), len(killed), sum(1 for x in mutants if x['equivalent']), sum(1 for x in mutants if x['status'].startswith('not-app')), len(surv)))
        for x in surv: print('ERROR: seeded edit not detected (contracts too weak): %s: %r -> %r' % (x['module'], x['old'][:60], x['new'][:60]))
        if surv: return 3
    if violations:
        for name in sorted({name for _, _, name in violations}):
            print('  failed obligation: ' + name)
        for rp, confirmed, name in violations[:1] if all(c for _, c, _ in violations) else violations:
            print('VIOLATION property=%s replay=%s%s' % (prop, rp, '' if confirmed else ' no-failing-input-found'))
        return 1
    if undec or und:
        # undecided parts: the bounded stand-in ran on the real code and found nothing
        if any(u.get('missing') for u in und): return 3
        if spec.get('harness') and not fails:
            print('NOTE: undecided obligations covered only by the bounded stand-in (labelled bounded in evidence)')
            return 0
        return 2
    return 0


def write_evidence(prop, tier, seed, spec, vcs, infos, und, hres, backends, wall, nviol, note=None, mutants=None):
    proved = [v for v in vcs if vcmod.status(v) == 'proved']
    all_proved = len(proved) == len(vcs) and not und and len(vcs) > 0
    level = spec.get('level', 'proof') if all_proved else 'other'
    samples = [dict(obligation=v.name, status=vcmod.status(v), backend='z3', time_s=round(v.time, 4), kind=v.kind)
               for v in (sorted(vcs, key=lambda v: -v.time)[:8] + [v for v in vcs if vcmod.status(v) != 'proved'][:8])]
    cov = dict(
        obligations=len(vcs), discharged=len(proved),
        checker_cmd='./check %s --tier %s' % (prop, tier),
        trusted_base=spec.get('trusted', []),
        samples=samples,
        functions_under_contract=infos,
        functions_undecided=und,
        backends=backends,
        solver_time_s=round(sum(v.time for v in vcs), 3),
        by_kind={k: sum(1 for v in vcs if v.kind == k) for k in sorted({v.kind for v in vcs})},
        covers=sum(1 for v in vcs if v.expect == 'sat' and v.result == 'sat'),
        covers_unknown=sum(1 for v in vcs if v.expect == 'sat' and v.result != 'sat'),
        explanation=(spec.get('level_text', '') + ' -- ' if spec.get('level') == 'other' else '') + ('every obligation generated from the current /repo source was discharged'
                     if all_proved else 'not every obligation was discharged: see samples / functions_undecided') +
                    ('; ' + note if note else ''),
    )
    if mutants is not None:
        cov['seeded_edits'] = dict(total=len(mutants), killed=sum(1 for x in mutants if x['status'] == 'killed'),
                                   results=[dict(module=x['module'], old=x['old'][:80], new=x['new'][:80], note=x['note'], status=x['status'],
                                                 equivalent=x['equivalent'], failed=x.get('failed', []), time_s=x.get('time_s')) for x in mutants])
    if hres is not None:
        cov['bounded_standin'] = dict(label='bounded (never counted as proved)', bound=spec.get('bound', ''),
                                      evaluations=hres.get('evaluations', 0), distinct_nontrivial=hres.get('distinct', 0),
                                      failures=len(hres.get('failures', [])), rule=hres.get('rule', ''),
                                      samples=hres.get('samples', [])[:3])
        cov['evaluations'] = max(1, hres.get('evaluations', 0)); cov['distinct_nontrivial'] = max(2, hres.get('distinct', 0)) if hres.get('distinct', 0) >= 2 else hres.get('distinct', 0)
        cov['rule'] = hres.get('rule', '')
    ev = dict(property_id=prop, tier=tier, seed=seed, level=level, coverage=cov,
              assumptions=spec.get('assumptions', []) + ['scan: ' + h for h in scan_assumptions()],
              wall_s=round(wall, 2), violations=nviol)
    edir = os.environ.get('PYVC_EVIDENCE_DIR') or os.path.join(VERIF, 'evidence')      # (selftests on scratch copies write elsewhere)
    os.makedirs(edir, exist_ok=True)
    json.dump(ev, open(os.path.join(edir, prop + '.json'), 'w'), indent=1, default=str)


if __name__ == '__main__':
    try:
        rc = main(sys.argv[1:])
    except SystemExit: raise
    except Exception:
        traceback.print_exc(); rc = 3
    sys.exit(rc)
