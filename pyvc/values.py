"""Symbolic values for pyvc.  Runs under python3-vt (z3-solver).

Kinds (element / parameter kinds, used in contracts):
  'int' 'bool' 'real'          scalars
  'ref'                        reference to a heap object (Int sort; NULL = -1 is Python None)
  'tok'                        preference-list token (shape table: Plain n | Open n | Close n)
  'optint'                     None | int
  'var'                        LP variable identity (Int sort)
  ('list', K)                  Python list with elements of kind K (symbolic length)
"""
import z3

I = z3.IntSort(); B = z3.BoolSort(); R = z3.RealSort()
NULL = z3.IntVal(-1)

# LP variable identity = its name (PuLP requires distinct names): constructors are injective and pairwise disjoint
Var = z3.Datatype('Var')
Var.declare('pairv', ('s', I), ('p', I)); Var.declare('alphav', ('as_', I), ('ap', I)); Var.declare('betav', ('bs', I), ('bp', I))
Var.declare('named', ('n', I)); Var.declare('indexed', ('fam', I), ('idx', I))
Var = Var.create()
Tok = z3.Datatype('Tok'); Tok.declare('mk', ('kind', I), ('val', I)); Tok = Tok.create()
Opt = z3.Datatype('Opt'); Opt.declare('none'); Opt.declare('some', ('v', I)); Opt = Opt.create()
OptR = z3.Datatype('OptR'); OptR.declare('none'); OptR.declare('some', ('v', R)); OptR = OptR.create()

_LS = {}


def kname(k):
    return k if isinstance(k, str) else 'L_' + kname(k[1])


def list_sort(k):
    """z3 datatype for a list whose elements have kind k."""
    n = kname(k)
    if n not in _LS:
        d = z3.Datatype('List_' + n)
        d.declare('mk', ('len', I), ('arr', z3.ArraySort(I, sort_of(k))))
        _LS[n] = d.create()
    return _LS[n]


def sort_of(k):
    if k in ('int', 'ref', 'enum', 'strint', 'aff'): return I
    if k == 'var': return Var
    if k == 'bool': return B
    if k == 'real': return R
    if k == 'tok': return Tok
    if k == 'strline': return StrLine
    if k == 'optint': return Opt
    if k == 'py': return Py
    if k == 'crit': return Crit
    if isinstance(k, tuple) and k[0] == 'list': return list_sort(k[1])
    raise ValueError('unknown kind %r' % (k,))


class V:
    pass


class VInt(V):
    def __init__(s, t): s.t = t if z3.is_expr(t) else z3.IntVal(t)
    def __repr__(s): return 'VInt(%s)' % s.t


class VBool(V):
    def __init__(s, t): s.t = t if z3.is_expr(t) else z3.BoolVal(t)
    def __repr__(s): return 'VBool(%s)' % s.t


class VReal(V):
    def __init__(s, t): s.t = t if z3.is_expr(t) else z3.RealVal(t)
    def __repr__(s): return 'VReal(%s)' % s.t


class VNone(V):
    def __repr__(s): return 'VNone'


class VRef(V):
    """Reference to a heap object of class cls (Pair, or an LP variable handle).  t == NULL is None."""
    def __init__(s, t, cls='Pair'): s.t = t; s.cls = cls
    def __repr__(s): return 'VRef(%s)' % s.t


class VOpt(V):
    def __init__(s, t): s.t = t
    def __repr__(s): return 'VOpt(%s)' % s.t


class VOptR(V):
    """None | float"""
    def __init__(s, t): s.t = t
    def __repr__(s): return 'VOptR(%s)' % s.t


class VTok(V):
    """A token string abstracted through the shape table; `removed` = characters stripped by .replace(c,'')."""
    def __init__(s, t, removed=frozenset()): s.t = t; s.removed = removed


class VStr(V):
    """String skeleton: list of atoms: python str | ('int', term) | ('real', term) | ('opaque', tag) |
    ('join', sep, VList/VCList) | ('tok', term) | ('obj', value)"""
    def __init__(s, atoms):
        out = []
        for a in atoms:
            if isinstance(a, str):
                if a == '': continue
                if out and isinstance(out[-1], str): out[-1] += a; continue
            out.append(a)
        s.atoms = out
    def __repr__(s): return 'VStr(%r)' % (s.atoms,)


class VTuple(V):
    def __init__(s, items): s.items = list(items)
    def __repr__(s): return 'VTuple(%r)' % (s.items,)


class VList(V):
    """Symbolic-length list.  Functional value: every mutation builds a new VList."""
    def __init__(s, ln, arr, kind): s.len = ln if z3.is_expr(ln) else z3.IntVal(ln); s.arr = arr; s.kind = kind
    def term(s): return list_sort(s.kind).mk(s.len, s.arr)
    def __repr__(s): return 'VList<%s>(len=%s)' % (kname(s.kind), s.len)


class VClosedToks(VList):
    """A token line whose last piece did not end with a separator: nothing may be appended to it any more (the next piece would run into the last token)."""
    pass


class VCList(V):
    """Concrete-length list of arbitrary values (literal tables, small tuples lists)."""
    def __init__(s, items): s.items = list(items)
    def __repr__(s): return 'VCList(%r)' % (s.items,)


class VEnum(V):
    def __init__(s, cls, name): s.cls = cls; s.name = name
    def __eq__(s, o): return isinstance(o, VEnum) and (s.cls, s.name) == (o.cls, o.name)
    def __hash__(s): return hash((s.cls, s.name))
    def __repr__(s): return '%s.%s' % (s.cls, s.name)


class VEnumSym(V):
    """Symbolic member of an enum class (integer code = member value)."""
    def __init__(s, cls, t): s.cls = cls; s.t = t


class VObj(V):
    """Singleton object (Model, LP_Solver, args namespace ...): fields live in path.objs[oid]."""
    def __init__(s, oid, cls): s.oid = oid; s.cls = cls
    def __repr__(s): return 'VObj(%s#%s)' % (s.cls, s.oid)


class VDict(V):
    """Dict with concrete (hashable python / VEnum) keys."""
    def __init__(s, d): s.d = dict(d)


class VMap(V):
    """Dict with symbolic integer-pair keys -> int (fileIO rank dictionaries): (has: Array(I,I)->B, val)."""
    def __init__(s, has, val): s.has = has; s.val = val


class VLine(V):
    """Line number i of the text file being read (T8): its blank-separated tokens are LTOK(i)[0 .. LTOKLEN(i)); a colon ends a
    field and is not part of a token (T7: replace(':', '') then split())."""
    def __init__(s, t): s.t = t


# A text under construction (the writer side of T7 / T8): whole lines only.  Line i has ntok[i] blank-separated tokens tok[i][0 .. ntok[i]);
# colon[i] records whether the line contains a ':' (the reader deletes colons before splitting, except on the header line).
Text = z3.Datatype('Text')
Text.declare('mk', ('nlines', I), ('ntok', z3.ArraySort(I, I)), ('tok', z3.ArraySort(I, z3.ArraySort(I, Tok))), ('colon', z3.ArraySort(I, B)))
Text = Text.create()


# A short string of a fixed template with up to three integer holes (one line of a listing): tpl = template id (0 = the empty string)
StrLine = z3.Datatype('StrLine'); StrLine.declare('mk', ('tpl', I), ('a0', I), ('a1', I), ('a2', I)); StrLine = StrLine.create()


class VText(V):
    """A string built line by line, seen through the lexical layer (term of datatype Text)."""
    def __init__(s, t): s.t = t
    def __repr__(s): return 'VText(%s)' % s.t


class VExt(V):
    """Opaque external object (parser, solver handle, file ...)."""
    def __init__(s, tag, data=None): s.tag = tag; s.data = data
    def __repr__(s): return 'VExt(%s)' % s.tag


_n = [0]


def reset_fresh():
    _n[0] = 0


def fresh(name, sort):
    _n[0] += 1
    return z3.Const('%s!%d' % (name, _n[0]), sort)


def fresh_of_kind(name, k):
    if k == 'int' or k == 'enum': return VInt(fresh(name, I))
    if k == 'var': return VLpVar(fresh(name, Var))
    if k == 'aff': return VAff(fresh(name, I))
    if k == 'bool': return VBool(fresh(name, B))
    if k == 'real': return VReal(fresh(name, R))
    if k == 'ref': return VRef(fresh(name, I))
    if k == 'tok': return VTok(fresh(name, Tok))
    if k == 'optint': return VOpt(fresh(name, Opt))
    if k == 'py': return VPy(fresh(name, Py))
    if isinstance(k, tuple) and k[0] == 'list':
        return VList(fresh(name + '.len', I), fresh(name + '.arr', z3.ArraySort(I, sort_of(k[1]))), k[1])
    if isinstance(k, tuple) and k[0] == 'tuple':
        return VTuple([fresh_of_kind('%s.%d' % (name, i), x) for i, x in enumerate(k[1:])])
    if k == 'text': return VText(fresh(name, Text))
    if isinstance(k, tuple) and k[0] == 'str':      # opaque string
        return VStr([('opaque', fresh(name, I))])
    if isinstance(k, tuple) and k[0] == 'map':
        return VMap(fresh(name + '.has', z3.ArraySort(I, z3.ArraySort(I, B))), fresh(name + '.val', z3.ArraySort(I, z3.ArraySort(I, I))))
    if isinstance(k, tuple) and k[0] == 'joinstr':  # sep.join(list of element kind k[2])
        return VStr([('join', k[1], fresh_of_kind(name + '.items', ('list', k[2])))])
    raise ValueError('fresh_of_kind %r' % (k,))


def fresh_like(name, v):
    if isinstance(v, VInt): return VInt(fresh(name, I))
    if isinstance(v, VBool): return VBool(fresh(name, B))
    if isinstance(v, VReal): return VReal(fresh(name, R))
    if isinstance(v, VRef): return VRef(fresh(name, I), v.cls)
    if isinstance(v, VLpVar): return VLpVar(fresh(name, Var))
    if isinstance(v, VAff): return VAff(fresh(name, I))
    if isinstance(v, VExt): return v
    if isinstance(v, VOpt): return VOpt(fresh(name, Opt))
    if isinstance(v, VOptR): return VOptR(fresh(name, OptR))
    if isinstance(v, VTok): return VTok(fresh(name, Tok))
    if isinstance(v, VPy): return VPy(fresh(name, Py))
    if isinstance(v, VEnumSym): return VEnumSym(v.cls, fresh(name, I))
    if isinstance(v, VClosedToks): raise TypeError('a closed token line cannot be modified by a loop')
    if isinstance(v, VList): return fresh_of_kind(name, ('list', v.kind))
    if isinstance(v, VTuple): return VTuple([fresh_like('%s.%d' % (name, i), x) for i, x in enumerate(v.items)])
    if isinstance(v, VNone): return v
    if isinstance(v, VMap): return VMap(fresh(name + '.has', v.has.sort()), fresh(name + '.val', v.val.sort()))
    if isinstance(v, VStr): return VStr([('opaque', fresh(name, I))])
    if isinstance(v, VText): return VText(fresh(name, Text))
    raise TypeError('cannot havoc %r' % (v,))


def wrap(kind, t):
    """Wrap a z3 term read out of a list of element kind `kind`."""
    if kind in ('int', 'enum'): return VInt(t)
    if kind == 'var': return VLpVar(t)
    if kind == 'aff': return VAff(t)
    if kind == 'bool': return VBool(t)
    if kind == 'real': return VReal(t)
    if kind == 'ref': return VRef(t)
    if kind == 'tok': return VTok(t)
    if kind == 'optint': return VOpt(t)
    if kind == 'py': return VPy(t)
    if kind == 'crit':
        L = list_sort('int'); e = Crit.ext(t)
        return VTuple([VEnumSym('Optimisation_options', Crit.opt(t)),
                       VUnion([(Crit.noext(t), VNone()), (z3.Not(Crit.noext(t)), VList(L.len(e), L.arr(e), 'int'))])])
    if isinstance(kind, tuple) and kind[0] == 'list':
        ls = list_sort(kind[1])
        return VList(ls.len(t), ls.arr(t), kind[1])
    raise ValueError(kind)


def kind_of(v):
    if isinstance(v, VInt): return 'int'
    if isinstance(v, VBool): return 'bool'
    if isinstance(v, VReal): return 'real'
    if isinstance(v, VRef): return 'ref'
    if isinstance(v, VTok): return 'tok'
    if isinstance(v, VOpt): return 'optint'
    if isinstance(v, VList): return ('list', v.kind)
    if isinstance(v, VLpVar): return 'var'
    raise TypeError('no kind for %r' % (v,))


def empty_list(kind):
    s = sort_of(kind)
    return VList(z3.IntVal(0), fresh('empty', z3.ArraySort(I, s)), kind)


class VLpVar(V):
    """An LpVariable, identified by its variable id (Int term); its value under the ghost valuation is NU[id]."""
    def __init__(s, t): s.t = t
    def __repr__(s): return 'VLpVar(%s)' % s.t


class VAff(V):
    """An LpAffineExpression / lpSum result, represented by its value under the ghost valuation (Int term)."""
    def __init__(s, t): s.t = t if z3.is_expr(t) else z3.IntVal(t)
    def __repr__(s): return 'VAff(%s)' % s.t


class VCons(V):
    """An LpConstraint: value under the ghost valuation is a Bool term."""
    def __init__(s, t): s.t = t


class VDiv(V):
    """int / int (a float in Python); only int(a/b) is supported, under the 2**53 side condition (DESIGN 3.1)."""
    def __init__(s, a, b): s.a = a; s.b = b


class VPy(V):
    """Dynamically typed value: None | int | list of int (argparse results).  Term of datatype Py."""
    def __init__(s, t): s.t = t


Py = z3.Datatype('Py')
# plist = a NON-EMPTY list of ints, kept as head + tail so that x[0] and x[1:] need no lambda terms
Py.declare('pnone'); Py.declare('pint', ('i', I)); Py.declare('plist', ('head', I), ('tail', list_sort('int')))
Py = Py.create()


class VUnion(V):
    """Guarded union of values of different Python types: [(cond, value)], conditions mutually exclusive."""
    def __init__(s, alts): s.alts = alts
    def __repr__(s): return 'VUnion(%r)' % ([v for _, v in s.alts],)


# one requested criterion: (Optimisation_options member, extras) where extras is None or a list of ints
Crit = z3.Datatype('Crit'); Crit.declare('mk', ('opt', I), ('noext', B), ('ext', list_sort('int'))); Crit = Crit.create()
NOLIST = z3.Const('NOLIST', list_sort('int'))
