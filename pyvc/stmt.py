"""Statements: path-wise execution.  exec_block returns a list of (status, path, payload);
status in {'normal','return','break','continue','exit'}."""
import ast
import z3
from .values import *
from .core import *
from . import listsets


def wf(v):
    from .engine import wf as _wf
    return _wf(v)

MUTATORS = ('append', 'extend', 'update')


class StmtMixin:
    # ---------------------------------------------------------------- blocks
    def exec_block(self, stmts, paths):
        """paths: list of Path.  Returns list of (status, path, payload)."""
        live = list(paths); done = []
        for s in stmts:
            nxt = []
            for p in live:
                for st, q, pay in self.stmt(s, p):
                    if st == 'normal': nxt.append(q)
                    else: done.append((st, q, pay))
            live = nxt
            if not live: break
        return [('normal', p, None) for p in live] + done

    def feasible(self, p, extra=None):
        s = self.fsolver; s.push()
        try:
            for t in p.pc: s.add(t)
            if extra is not None: s.add(extra)
            return s.check() != z3.unsat
        finally:
            s.pop()

    # ---------------------------------------------------------------- element conversion
    def to_elem(self, kind, v, p=None, line=0):
        if kind in ('int', 'enum'):
            if isinstance(v, VInt): return v.t
            if isinstance(v, VBool): return z3.If(v.t, 1, 0)
            if isinstance(v, VEnum): return z3.IntVal(self.repo.enums[v.cls][v.name])
            if isinstance(v, VEnumSym): return v.t
        if kind == 'bool' and isinstance(v, (VBool, VInt)): return self.truthy(v)
        if kind == 'real' and isinstance(v, (VReal, VInt)): return self.toreal(v)
        if kind == 'ref':
            if isinstance(v, VRef): return v.t
            if isinstance(v, VNone): return NULL
        if kind == 'optint' and isinstance(v, (VOpt, VNone, VInt)): return self.toopt(v)
        if kind == 'var' and isinstance(v, VLpVar): return v.t
        if kind == 'aff' and isinstance(v, (VAff, VLpVar, VInt)):
            from .models_lp import val_of
            return val_of(self, v, p, line)
        if kind == 'py': return self.topy(v)
        if kind == 'crit':
            if isinstance(v, VUnion):
                tup = [(c, x) for c, x in v.alts if isinstance(x, VTuple) and len(x.items) == 2]
                if len(tup) == 1:
                    if p is not None:
                        for c, x in v.alts:
                            if x is not tup[0][1]: self.vc('subset/union-resolved@%d' % line, p, z3.Not(c), kind='subset', line=line)
                    v = tup[0][1]
            if isinstance(v, VTuple) and len(v.items) == 2:
                o = v.items[0]; x = v.items[1]
                code = z3.IntVal(self.repo.enums[o.cls][o.name]) if isinstance(o, VEnum) else o.t
                if isinstance(x, VPy): raise Undecided('criterion extras must be None or a list')
                alts = x.alts if isinstance(x, VUnion) else [(z3.BoolVal(True), x)]
                noext = z3.BoolVal(False); ext = NOLIST
                for c, a in alts:
                    if isinstance(a, VNone): noext = z3.If(c, z3.BoolVal(True), noext)
                    elif isinstance(a, VList) and a.kind == 'int': ext = z3.If(c, a.term(), ext)
                    elif isinstance(a, VCList) and not a.items: ext = z3.If(c, empty_list('int').term(), ext)
                    else: raise Undecided('criterion extras %r' % (a,))
                return Crit.mk(code, z3.simplify(noext), z3.simplify(ext))
        if kind == 'tok':
            if isinstance(v, VTok): return v.t
            if isinstance(v, VStr): return self.shape_tok(v)
        if kind == 'strint' and isinstance(v, VStr):
            k, t = self.str_to_elem(v, 'strint'); return t
        if isinstance(kind, str) and kind in self.shapes and isinstance(v, VStr):
            return self.shapes[kind].encode(self, v)
        if isinstance(kind, tuple) and kind[0] == 'list':
            if isinstance(v, VList) and v.kind == kind[1]: return v.term()
            if isinstance(v, VCList) and not v.items: return empty_list(kind[1]).term()
            if isinstance(v, VCList):
                out = empty_list(kind[1])
                for x in v.items: out = VList(out.len + 1, z3.Store(out.arr, out.len, self.to_elem(kind[1], x)), kind[1])
                return out.term()
        raise Undecided('cannot store %r in a list of %s (line %d)' % (v, kname(kind), line))

    def shape_tok(self, v):
        a = v.atoms
        if len(a) == 1 and isinstance(a[0], tuple) and a[0][0] == 'int': return Tok.mk(0, a[0][1])
        if len(a) == 2 and a[0] == '(' and isinstance(a[1], tuple) and a[1][0] == 'int': return Tok.mk(1, a[1][1])
        if len(a) == 2 and a[1] == ')' and isinstance(a[0], tuple) and a[0][0] == 'int': return Tok.mk(2, a[0][1])
        raise Undecided('string %r matches no declared token shape' % (a,))

    def str_to_elem(self, v, kind):
        a = v.atoms
        if len(a) == 1 and isinstance(a[0], tuple) and a[0][0] == 'int': return 'strint', a[0][1]
        if len(a) == 1 and isinstance(a[0], str) and a[0].isdigit() and (a[0] == '0' or a[0][0] != '0'):
            return 'strint', z3.IntVal(int(a[0]))
        if len(a) == 0: return 'strline', self.shapes['strline'].encode(self, v)
        raise Undecided('string %r matches no declared element shape' % (a,))

    def wrapk(self, kind, t):
        if kind == 'strint': return VStr([('int', t)])
        if isinstance(kind, str) and kind in self.shapes: return self.shapes[kind].decode(self, t)
        return wrap(kind, t)

    def typed_empty(self, v, kind, p=None):
        """Give `[]` / [[] for ..] the element kind declared in the contract."""
        if isinstance(v, VCList) and not v.items and kind is not None:
            if not (isinstance(kind, tuple) and kind[0] == 'list'): raise StaleContract('declared kind %r is not a list' % (kind,))
            e = empty_list(kind[1])
            if kind[1] in listsets.KINDS and self.listsets and p is not None:
                for f in listsets.on_empty(e.term()): p.assume(f)
            return e
        if isinstance(v, tuple) and v[0] == 'emptylists':
            if kind is None: raise StaleContract('list of lists needs a declared kind')
            inner = kind[1]
            if not (isinstance(inner, tuple) and inner[0] == 'list'): raise StaleContract('declared kind %r is not a list of lists' % (kind,))
            e = empty_list(inner[1])
            if inner[1] in listsets.KINDS and self.listsets and p is not None:
                for f in listsets.on_empty(e.term()): p.assume(f)
            return VList(v[1], z3.K(I, e.term()), inner)
        return v

    # ---------------------------------------------------------------- lvalues
    def lv_set(self, tgt, v, p, line=0):
        if isinstance(tgt, ast.Name):
            dk = self.contract.get('locals', {}).get(tgt.id)
            v = self.typed_empty(v, dk, p)
            if isinstance(v, tuple): raise Undecided('untyped list of lists')
            if isinstance(v, VNone) and dk == 'ref': v = VRef(NULL)          # declared: None | object reference
            if isinstance(v, (VNone, VInt)) and dk == 'optint': v = VOpt(self.toopt(v))
            if dk == ('list', ('list', 'tok')) and isinstance(v, VList) and v.kind == 'strline' and z3.is_K(v.arr) \
                    and z3.simplify(StrLine.tpl(v.arr.arg(0)) == 0).eq(z3.BoolVal(True)):
                v = VList(v.len, z3.K(I, empty_list('tok').term()), ('list', 'tok'))          # [''] * n declared as a list of (empty) token lines
            if dk == 'linetoks' and isinstance(v, VStr):      # declared: one line assembled token by token (models_text)
                from .models_text import line_tokens_append
                v = line_tokens_append(self, empty_list('tok'), v, p, line)
            if dk == 'text' and isinstance(v, VStr):          # declared: a text assembled in whole lines (models_text)
                from .models_text import text_append, empty_text
                v = text_append(self, empty_text(), v, p, line)
            p.env[tgt.id] = v
            p.ghost.pop('unbound:' + tgt.id, None)
            if tgt.id in p.alias:
                cont, idx = p.alias[tgt.id]
                self.lv_set_elem(cont, idx, v, p, line)
            return
        if isinstance(tgt, ast.Attribute):
            o = self.ev(tgt.value, p)
            if isinstance(o, VObj):
                v = self.typed_empty(v, self.field_kind(o.cls, tgt.attr), p)
                if isinstance(v, tuple): raise Undecided('untyped list of lists')
                p.objs[o.oid][tgt.attr] = v; return
            if isinstance(o, VRef):
                if tgt.attr not in SCHEMA: raise Undecided('unknown attribute ' + tgt.attr)
                self.vc('no-raise/attribute-of-None@%d' % line, p, o.t != NULL, line=line)
                k = SCHEMA[tgt.attr]
                p.heap[tgt.attr] = z3.Store(self.heap_get(p, tgt.attr), o.t, self.to_elem(k, v))
                p.has[tgt.attr] = z3.Store(self.has_get(p, tgt.attr), o.t, z3.BoolVal(True)); return
            if isinstance(o, VExt) and o.tag == 'LpProblem' and tgt.attr == 'objective':
                from .models_lp import val_of
                p.ghost['objective'] = val_of(self, v, p, line); return
            raise Undecided('attribute assignment on %r' % (o,))
        if isinstance(tgt, ast.Subscript):
            if isinstance(tgt.slice, ast.Slice): raise Undecided('slice assignment')
            i = self.ev(tgt.slice, p)
            self.lv_set_elem(tgt.value, i, v, p, line); return
        if isinstance(tgt, (ast.Tuple, ast.List)):
            items = self.unpack(v, len(tgt.elts), p, line)
            for t, x in zip(tgt.elts, items): self.lv_set(t, x, p, line)
            return
        raise Undecided('assignment target %s' % type(tgt).__name__)

    def unpack(self, v, n, p, line):
        if isinstance(v, (VTuple, VCList)):
            if len(v.items) != n:
                self.vc('no-raise/unpack@%d' % line, p, z3.BoolVal(False), line=line); raise Undecided('unpack arity')
            return v.items
        raise Undecided('unpack of %r' % (v,))

    def lv_set_elem(self, cont_ast, i, v, p, line):
        """cont_ast[i] = v  (functional update of the container, written back through its own lvalue)."""
        c = self.ev(cont_ast, p)
        if isinstance(c, VMap):
            k1, k2 = self.map_key(i, p, line); t, _ = self.num(v, 'map value', p, line)
            new = VMap(z3.Store(c.has, k1, z3.Store(z3.Select(c.has, k1), k2, z3.BoolVal(True))), z3.Store(c.val, k1, z3.Store(z3.Select(c.val, k1), k2, t)))
            self.lv_set(cont_ast, new, p, line); return
        if isinstance(c, VDict): raise Undecided('dict item assignment')
        if isinstance(i, VOpt):
            t, _ = self.num(i, 'index', p, line); i = VInt(t)
        if isinstance(c, VList):
            j = self.norm_index(c.len, i.t, p, line)
            new = VList(c.len, z3.Store(c.arr, j, self.to_elem(c.kind, v, p, line)), c.kind)
        elif isinstance(c, VCList):
            n = len(c.items)
            if z3.is_int_value(i.t):
                k = i.t.as_long()
                if not (-n <= k < n):
                    self.vc('no-raise/index@%d' % line, p, z3.BoolVal(False), line=line); raise Undecided('index')
                items = list(c.items); items[k] = v; new = VCList(items)
            else:
                self.vc('no-raise/index@%d' % line, p, z3.And(i.t >= -n, i.t < n), line=line)
                j = z3.If(i.t >= 0, i.t, i.t + n)
                new = VCList([self.merge(j == k, v, c.items[k]) for k in range(n)])
        else:
            raise Undecided('item assignment on %r' % (c,))
        self.lv_set(cont_ast, new, p, line)

    def list_append(self, c, v, p, line):
        if isinstance(c, VList):
            e = self.to_elem(c.kind, v, p, line)
            new = VList(c.len + 1, z3.Store(c.arr, c.len, e), c.kind)
            if c.kind in listsets.KINDS and self.listsets:
                for f in listsets.on_append(c.term(), new.term(), e): p.assume(f)
            return new
        if isinstance(c, VCList): return VCList(c.items + [v])
        if isinstance(c, VNone):
            self.vc('no-raise/attribute-of-None@%d' % line, p, z3.BoolVal(False), line=line)
        raise Undecided('append on %r' % (c,))

    # ---------------------------------------------------------------- statements
    def stmt(self, s, p):
        self.nexec += 1
        m = getattr(self, 'st_' + type(s).__name__, None)
        if m is None: raise Undecided('statement %s at line %d' % (type(s).__name__, s.lineno))
        return m(s, p)

    def st_Pass(self, s, p): return [('normal', p, None)]

    def st_Expr(self, s, p):
        if isinstance(s.value, ast.Constant): return [('normal', p, None)]      # docstring
        if isinstance(s.value, ast.Call): return self.call_stmt(s.value, p, None)
        self.ev(s.value, p); return [('normal', p, None)]

    def st_Assign(self, s, p):
        if len(s.targets) != 1: raise Undecided('chained assignment')
        if isinstance(s.value, ast.Call):
            return self.call_stmt(s.value, p, s.targets[0])
        v = self.ev(s.value, p)
        self.lv_set(s.targets[0], v, p, s.lineno)
        return [('normal', p, None)]

    def st_AugAssign(self, s, p):
        cur = self.ev(s.target, p); r = self.ev(s.value, p)
        if isinstance(cur, VExt) and cur.tag == 'LpProblem' and isinstance(s.op, ast.Add):
            self.lp_add_impl(self, r, p, s.lineno)
            return [('normal', p, None)]
        TOKLINES = ('list', ('list', 'tok'))
        if isinstance(s.target, ast.Name) and self.contract.get('locals', {}).get(s.target.id) == 'linetoks' and isinstance(cur, VList) and cur.kind == 'tok' \
                and isinstance(s.op, ast.Add) and isinstance(r, VStr):
            from .models_text import line_tokens_append
            in_loop = any(s is n for lp in ast.walk(self.fn.node) if isinstance(lp, (ast.For, ast.While)) for n in ast.walk(lp))
            v = line_tokens_append(self, cur, r, p, s.lineno, in_loop)
        elif isinstance(s.target, ast.Subscript) and isinstance(s.target.value, ast.Name) and self.contract.get('locals', {}).get(s.target.value.id) == TOKLINES \
                and isinstance(cur, VList) and cur.kind == 'tok' and isinstance(s.op, ast.Add) and (isinstance(r, VStr) or (isinstance(r, VList) and r.kind == 'tok')):
            # an element of a declared list of token lines (listing view): lines[i] += piece
            from .models_text import line_tokens_append
            v = line_tokens_append(self, cur, r, p, s.lineno, True, listing=True)
        elif isinstance(cur, VText) and isinstance(s.op, ast.Add) and isinstance(r, VStr):
            from .models_text import text_append
            v = text_append(self, cur, r, p, s.lineno)
        elif isinstance(cur, VStr) and isinstance(s.op, ast.Add) and isinstance(r, VStr):
            v = self.str_append(cur, r, p, s.lineno)
        elif isinstance(cur, (VAff, VLpVar)) or isinstance(r, (VAff, VLpVar)):
            v = self.lp_binop(s.op, cur, r, p, s.lineno)
        else:
            v = self.binop(s.op, cur, r, p, s.lineno)
        self.lv_set(s.target, v, p, s.lineno)
        return [('normal', p, None)]

    def str_append(self, cur, r, p, line):
        return VStr(cur.atoms + r.atoms)

    def st_If(self, s, p):
        c = self.truthy(self.ev(s.test, p))
        out = []
        if z3.is_true(c): return self.exec_block(s.body, [p])
        if z3.is_false(c): return self.exec_block(s.orelse, [p])
        base = len(p.pc)
        a = p.fork(); a.assume(c)
        b = p; b.assume(z3.Not(c))
        if self.feasible(a): out += self.exec_block(s.body, [a])
        if self.feasible(b): out += self.exec_block(s.orelse, [b])
        flat = not any(isinstance(x, (ast.If, ast.For, ast.While)) for st_ in s.body + s.orelse for x in ast.walk(st_))
        if self.contract.get('merge_ifs') and len(out) > 1 and flat:
            # state merging at the join (contract option): branches that only assign are folded into ite-values
            normal = [q for st, q, _ in out if st == 'normal']; rest = [x for x in out if x[0] != 'normal']
            out = [('normal', q, None) for q in self.merge_paths(normal, base)] + rest
        return out

    def st_Return(self, s, p):
        self.apply_lemmas('return', p)
        if s.value is not None and isinstance(s.value, ast.Call):
            res = []
            for st, q, pay in self.call_stmt(s.value, p, '__ret__'):
                if st == 'normal': res.append(('return', q, q.env.pop('__ret__')))
                else: res.append((st, q, pay))
            return res
        v = self.ev(s.value, p) if s.value is not None else VNone()
        return [('return', p, v)]

    def st_Continue(self, s, p): return [('continue', p, None)]

    def st_Break(self, s, p): return [('break', p, None)]

    def st_Import(self, s, p): return [('normal', p, None)]
    st_ImportFrom = st_Import

    # ---------------------------------------------------------------- loops
    def iter_desc(self, it, p, line):
        """Describe an iterable: (count term, at(k) -> value, alias container ast or None, concrete count or None)."""
        if isinstance(it, ast.Call) and isinstance(it.func, ast.Name) and it.func.id == 'range':
            a = [self.ev(x, p) for x in it.args]
            for x in a:
                if not isinstance(x, VInt): raise Undecided('range over non-int')
            if len(a) == 1: lo, hi, step = z3.IntVal(0), a[0].t, 1
            elif len(a) == 2: lo, hi, step = a[0].t, a[1].t, 1
            else:
                if not z3.is_int_value(a[2].t): raise Undecided('symbolic range step')
                lo, hi, step = a[0].t, a[1].t, a[2].t.as_long()
            if step == 1: n = z3.If(hi > lo, hi - lo, 0)
            elif step == -1: n = z3.If(lo > hi, lo - hi, 0)
            else: raise Undecided('range step %d' % step)
            n = z3.simplify(n)
            return n, (lambda k: VInt(z3.simplify(lo + k * step))), None, (n.as_long() if z3.is_int_value(n) else None)
        if isinstance(it, ast.Call) and isinstance(it.func, ast.Name) and it.func.id == 'enumerate':
            n, at, al, c = self.iter_desc(it.args[0], p, line)
            return n, (lambda k: VTuple([VInt(k), at(k)])), None, c
        v = self.ev(it, p)
        if isinstance(v, VList):
            al = it if isinstance(it, (ast.Name, ast.Attribute, ast.Subscript)) else None
            n = z3.simplify(v.len)
            self.iter_list = v if (v.kind in listsets.KINDS and self.listsets) else None
            return v.len, (lambda k: self.wrapk(v.kind, z3.Select(v.arr, k))), al, (n.as_long() if z3.is_int_value(n) else None)
        if isinstance(v, (VCList, VTuple)):
            items = v.items
            def at(k):
                if z3.is_int_value(k): return items[k.as_long()]
                out = items[-1]
                for c in range(len(items) - 2, -1, -1): out = self.merge(k == c, items[c], out)
                return out
            return z3.IntVal(len(items)), at, None, len(items)
        if isinstance(v, VExt) and v.tag in self.iter_models: return self.iter_models[v.tag](self, v, p, line)
        raise Undecided('iteration over %r at line %d' % (v, line))

    def bind_target(self, tgt, val, p, line, alias=None, k=None):
        if isinstance(tgt, ast.Name):
            p.env[tgt.id] = val
            p.alias.pop(tgt.id, None); p.ghost.pop('unbound:' + tgt.id, None)
            if alias is not None and isinstance(val, VList): p.alias[tgt.id] = (alias, VInt(k))
            return
        if isinstance(tgt, (ast.Tuple, ast.List)):
            items = self.unpack(val, len(tgt.elts), p, line)
            for t, x in zip(tgt.elts, items): self.bind_target(t, x, p, line)
            return
        raise Undecided('loop target')

    def st_With(self, s, p):
        # with open(name) as f: ...   (T8: the handle iterates over the lines of the file; closing is not modelled)
        if len(s.items) != 1: raise Undecided('with: several items')
        it = s.items[0]
        v = self.ev(it.context_expr, p)
        if not (isinstance(v, VExt) and v.tag == 'file'): raise Undecided('with: not a file')
        if it.optional_vars is not None:
            if not isinstance(it.optional_vars, ast.Name): raise Undecided('with target')
            p.env[it.optional_vars.id] = v
        return self.exec_block(s.body, [p])

    def st_For(self, s, p):
        if s.orelse: raise Undecided('for-else')
        ordinal = self.fn.loops[id(s)]
        lc = self.contract.get('loops', {}).get(ordinal)
        self.iter_list = None
        n, at, alias, conc = self.iter_desc(s.iter, p, s.lineno)
        if lc is None or 'cut' in lc:
            if conc is None: raise StaleContract('loop %d (line %d) has no invariant and no concrete bound' % (ordinal, s.lineno))
            return self.unroll_for(s, p, conc, at, alias, lc, ordinal)
        return self.inv_loop(s, p, ordinal, lc, n, at, alias, is_while=False)

    def unroll_for(self, s, p, conc, at, alias, lc=None, ordinal=0):
        """Exact unrolling (complete).  An optional 'cut' (facts proved after every iteration, then assumed) only splits the
        proof into per-iteration steps; the state is never havocked."""
        live = [p]; done = []
        for c in range(conc):
            k = z3.IntVal(c); nxt = []
            base = min(len(q.pc) for q in live) if len(live) == 1 else None
            for q in live:
                self.bind_target(s.target, at(k), q, s.lineno, alias, k)
                for st, r, pay in self.exec_block(s.body, [q]):
                    if st in ('normal', 'continue'): nxt.append(r)
                    elif st == 'break': done.append(('normal', r, None))
                    else: done.append((st, r, pay))
            live = self.merge_paths(nxt, base)
            if lc is not None:
                for q in live:
                    q.env['_k'] = VInt(c + 1)
                    for i, src in enumerate(lc['cut']):
                        t = z3.simplify(self.spec_eval(src, q))
                        if z3.is_true(t): continue         # guard with the concrete iteration number is false: nothing to show
                        self.vcs.append(VC('loop%d/cut%d@iter%d' % (ordinal, i, c + 1), list(q.pc), t, 'invariant', s.lineno, self.fn.key))
                        q.assume(t)
                    q.env.pop('_k', None)
        return [('normal', q, None) for q in live] + done

    def merge_paths(self, paths, base_len=None):
        """State merging at the end of an exactly-unrolled iteration: paths that forked inside the iteration are joined
        again when every differing value can be expressed as an ite (keeps literal-table loops linear)."""
        if len(paths) < 2 or base_len is None: return paths
        out = []
        for q in paths:
            for i, r in enumerate(out):
                m = self.try_merge(r, q, base_len)
                if m is not None: out[i] = m; break
            else: out.append(q)
        return out

    def try_merge(self, a, b, base_len):
        if len(a.pc) < base_len or len(b.pc) < base_len: return None
        if any(not x.eq(y) for x, y in zip(a.pc[:base_len], b.pc[:base_len])): return None
        if set(a.objs) != set(b.objs): return None
        ca = z3.And(*a.pc[base_len:]) if len(a.pc) > base_len else z3.BoolVal(True)
        cb = z3.And(*b.pc[base_len:]) if len(b.pc) > base_len else z3.BoolVal(True)
        m = a.fork()
        try:
            for k in set(a.env) | set(b.env):
                if k in a.env and k in b.env:
                    if a.env[k] is not b.env[k]: m.env[k] = self.merge(ca, a.env[k], b.env[k])
                else:
                    # bound on one side only: keep the value, remember when it is bound (reading it otherwise is an error)
                    m.env[k] = a.env[k] if k in a.env else b.env[k]
                    a.ghost.setdefault('unbound:' + k, z3.BoolVal(k in a.env)); b.ghost.setdefault('unbound:' + k, z3.BoolVal(k in b.env))
            for oid in a.objs:
                if set(a.objs[oid]) != set(b.objs[oid]): return None
                for f in a.objs[oid]:
                    if a.objs[oid][f] is not b.objs[oid][f]: m.objs[oid][f] = self.merge(ca, a.objs[oid][f], b.objs[oid][f])
            for k in set(a.heap) | set(b.heap):
                x, y = a.heap.get(k), b.heap.get(k)
                if x is None or y is None or not x.eq(y): return None
            for k in set(a.has) | set(b.has):
                x, y = a.has.get(k), b.has.get(k)
                if x is None or y is None or not x.eq(y): return None
            for k in set(a.ghost) ^ set(b.ghost):
                if not k.startswith('unbound:'): return None
                a.ghost.setdefault(k, z3.BoolVal(True)); b.ghost.setdefault(k, z3.BoolVal(True))     # absent = bound
            for k in a.ghost:
                if a.ghost[k] is not b.ghost[k]:
                    if z3.is_expr(a.ghost[k]) and z3.is_expr(b.ghost[k]): m.ghost[k] = z3.If(ca, a.ghost[k], b.ghost[k])
                    else: return None
        except Undecided:
            return None
        m.pc = a.pc[:base_len] + [z3.Or(ca, cb)]
        return m

    def st_While(self, s, p):
        if s.orelse: raise Undecided('while-else')
        ordinal = self.fn.loops[id(s)]
        lc = self.contract.get('loops', {}).get(ordinal)
        if lc is None: raise StaleContract('while loop %d (line %d) has no invariant' % (ordinal, s.lineno))
        return self.inv_loop(s, p, ordinal, lc, None, None, None, is_while=True)

    def inv_eval(self, lc, ordinal, path, k, tag, assume):
        q = path.fork() if not assume else path
        saved = {x: path.env.get(x) for x in ('_k', '_k%d' % ordinal)}
        env = path.env
        env['_k'] = VInt(k); env['_k%d' % ordinal] = VInt(k)
        try:
            for i, src in enumerate(lc['invariant']):
                name, src = src if isinstance(src, tuple) else ('inv%d' % i, src)
                t = self.spec_eval(src, path)
                if assume:
                    path.assume(t); path.tags[t.get_id()] = name
                else:
                    v = VC('loop%d/%s/%s' % (ordinal, tag, name), list(path.pc), t, 'invariant', 0, self.fn.key)
                    # hypothesis slice tried first by the solver: the other (differently named) invariant clauses are left out.
                    # Fewer hypotheses can only make a proof harder to find, never unsound.
                    v.goal_tag = name
                    v.drop = tuple(i for i, h in enumerate(path.pc) if path.tags.get(h.get_id()) not in (None, name) and not path.tags.get(h.get_id(), '').startswith('inv'))
                    self.vcs.append(v)
        finally:
            for x, v in saved.items():
                if x == '_k':
                    if v is None: env.pop(x, None)
                    else: env[x] = v
            env['_k%d' % ordinal] = VInt(k)

    def havoc(self, mods, p, tag):
        for m in mods:
            if m[0] == 'name':
                if m[1] in p.env:
                    try: p.env[m[1]] = fresh_like(m[1] + tag, p.env[m[1]])
                    except TypeError: raise Undecided('cannot havoc local %s' % m[1])
                    p.assume(wf(p.env[m[1]]))
            elif m[0] == 'heap':
                p.heap[m[1]] = fresh('H_' + m[1] + tag, z3.ArraySort(I, sort_of(SCHEMA[m[1]])))
                p.has[m[1]] = fresh('HAS_' + m[1] + tag, z3.ArraySort(I, B))
            elif m[0] == 'field':
                oid, f = m[1], m[2]
                if f in p.objs[oid]:
                    try: p.objs[oid][f] = fresh_like(f + tag, p.objs[oid][f])
                    except TypeError: raise Undecided('cannot havoc field %s' % f)
                    p.assume(wf(p.objs[oid][f]))
            elif m[0] == 'ghost':
                self.havoc_ghost(m[1], p, tag)

    def havoc_ghost(self, name, p, tag):
        if name in ('feas', 'feas_at_solve'):
            p.ghost[name] = self.fresh_feas(tag.replace('@', '_')); return       # a predicate on valuations, applied to the ghost valuation
        t = p.ghost.get(name)
        if t is None:
            if name in ('status', 'solves'): t = z3.Int('x')
            elif name == 'hist': t = z3.Array('h', I, I)
            elif name == 'val': t = z3.Array('v', Var, I)
            elif name == 'objective': t = z3.Int('x')
            elif name.startswith('used:'): t = z3.Bool('b')
            elif name.startswith('rec:'): t = None
            elif name == 'alloc': t = z3.Array('ALLOC', I, B)
            elif name.startswith('fs_'):
                from .models_basic import FS_DEFAULTS
                t = FS_DEFAULTS.get(name)
        if t is None or not z3.is_expr(t): raise Undecided('cannot havoc ghost ' + name)
        p.ghost[name] = fresh(name.replace(':', '_') + tag, t.sort())

    def havoc_as(self, lc, p, tag):
        """Fields whose Python type changes inside the loop (int placeholder, later a tuple / list): the arbitrary loop state
        gets the declared guarded union instead of a value of the entry type."""
        for lv, (cond_src, k1, k2) in lc.get('havoc_as', {}).items():
            t = ast.parse(lv, mode='eval').body
            o = self.spec_value_ast(t.value, p)
            if not isinstance(o, VObj): raise StaleContract('havoc_as target ' + lv)
            c = self.spec_eval(cond_src, p)
            v1 = self.make_value(k1, t.attr + tag + '.a', p); v2 = self.make_value(k2, t.attr + tag + '.b', p)
            p.objs[o.oid][t.attr] = VUnion([(c, v1), (z3.Not(c), v2)])

    def inv_loop(self, s, p, ordinal, lc, n, at, alias, is_while):
        itl = getattr(self, 'iter_list', None); self.iter_list = None
        if itl is not None:
            for f in listsets.on_iter_init(itl.term()): p.assume(f)
        rec = lc.get('record', {})
        rec = {nm: (v + (None,))[:3] for nm, v in rec.items()}
        for nm, (kind, src, at_src) in rec.items():
            # ghost history of THIS execution of the loop.  Indexed by the iteration number (no explicit index): one fixed array,
            # entry k is DEFINED (assumed equal) by iteration k - each index is defined once, so the assumptions cannot conflict,
            # and facts about [0,k) keep their syntactic form over the iteration (no store terms).  With an explicit index
            # expression the array is updated by stores and havocked like a program variable.
            if at_src is None: p.ghost['rec:' + nm] = fresh('REC_' + nm, z3.ArraySort(I, sort_of(kind)))
            else: p.ghost.setdefault('rec:' + nm, fresh('REC_' + nm, z3.ArraySort(I, sort_of(kind))))
        # 1. initiation
        self.inv_eval(lc, ordinal, p, z3.IntVal(0), 'init', assume=False)
        mods = self.mods_of(s.body, p) | ({m for m in self.mods_of_target(s.target)} if not is_while else set())
        mods = mods | {('ghost', 'rec:' + nm) for nm in rec if rec[nm][2] is not None}
        out = []
        # 2. arbitrary iteration
        h = p.fork(); k = fresh('k%d' % ordinal, I)
        self.havoc(mods, h, '@L%d' % ordinal)
        self.havoc_as(lc, h, '@L%d' % ordinal)
        h.assume(k >= 0)
        self.inv_eval(lc, ordinal, h, k, 'assume', assume=True)
        a = h.fork()      # exit state shares the havoc
        if is_while:
            c = self.truthy(self.ev(s.test, h))          # safety obligations of the guard under the invariant
            a.assume(z3.Not(c)); h.assume(c)
        else:
            h.assume(k < n)
            self.bind_target(s.target, at(k), h, s.lineno, alias, k)
            if itl is not None:
                for f in listsets.on_iter_step(itl.term(), k, z3.Select(itl.arr, k)): h.assume(f)
        if self.feasible(h):
            if 'variant' in lc and is_while: v0 = self.spec_int(lc['variant'], h)
            self.iter_snaps.append(h.fork())           # state at the start of the iteration: prev(expr) in lemma bindings
            try: body_res = self.exec_block(s.body, [h])
            finally: snap = self.iter_snaps.pop()
            for st, r, pay in body_res:
                if st not in ('normal', 'continue'):
                    # paths leaving the loop from inside the body still belong to iteration k of the ghost history
                    for nm, (kind, src, at_src) in rec.items():
                        try: val = self.spec_value(src, r); idx = self.spec_value(at_src, r).t if at_src else k
                        except (Undecided, StaleContract): continue
                        self.record_at(r, nm, at_src, idx, self.to_elem(kind, val))
                if st in ('normal', 'continue'):
                    self.iter_snaps.append(snap)
                    try: self.apply_lemmas('loop%d.body_end' % ordinal, r)
                    finally: self.iter_snaps.pop()
                    for nm, (kind, src, at_src) in rec.items():      # ghost history: value of a specification expression in iteration k
                        try: val = self.spec_value(src, r); idx = self.spec_value(at_src, r).t if at_src else k
                        except StaleContract: continue        # the recorded program variable is not bound on this path
                        self.record_at(r, nm, at_src, idx, self.to_elem(kind, val))
                    self.inv_eval(lc, ordinal, r, k + 1, 'preserve', assume=False)
                    if 'variant' in lc and is_while:
                        v1 = self.spec_int(lc['variant'], r)
                        self.vcs.append(VC('loop%d/variant' % ordinal, list(r.pc), z3.And(v0 >= 0, v1 < v0), 'variant', s.lineno, self.fn.key))
                elif st == 'break': out.append(('normal', r, None))
                else: out.append((st, r, pay))
        # 3. exit
        if not is_while:
            # exit state: invariant at k = n
            a = p.fork(); self.havoc(mods, a, '@X%d' % ordinal); self.havoc_as(lc, a, '@X%d' % ordinal)
            nn = n          # a count: non-negative by construction (range) or by well-formedness (list length)
            self.inv_eval(lc, ordinal, a, nn, 'assume', assume=True)
            if itl is not None:
                for f in listsets.on_iter_exit(itl.term(), nn): a.assume(f)
        self.apply_lemmas('loop%d.exit' % ordinal, a)
        if self.feasible(a): out.append(('normal', a, None))
        return out

    def record_at(self, r, nm, at_src, idx, elem):
        if at_src is None: r.assume(z3.Select(r.ghost['rec:' + nm], idx) == elem)
        else: r.ghost['rec:' + nm] = z3.Store(r.ghost['rec:' + nm], idx, elem)

    def spec_int(self, src, path):
        v = self.spec_value(src, path)
        return v.t

    # ---------------------------------------------------------------- syntactic frame of a loop body
    def mods_of_target(self, tgt):
        if isinstance(tgt, ast.Name): return {('name', tgt.id)}
        if isinstance(tgt, (ast.Tuple, ast.List)):
            out = set()
            for t in tgt.elts: out |= self.mods_of_target(t)
            return out
        return set()

    def root_mod(self, t, p):
        """Frame entry for a write through lvalue t."""
        while isinstance(t, ast.Subscript): t = t.value
        if isinstance(t, ast.Name):
            if t.id in p.alias:
                return self.root_mod(p.alias[t.id][0], p) | {('name', t.id)}
            return {('name', t.id)}
        if isinstance(t, ast.Attribute):
            try: o = self.spec_value_ast(t.value, p)
            except (Undecided, StaleContract): o = None
            if isinstance(o, VObj):
                if isinstance(p.objs[o.oid].get(t.attr), VExt) and p.objs[o.oid][t.attr].tag == 'LpProblem': return {('ghost', 'feas')}
                return {('field', o.oid, t.attr)}
            if isinstance(o, VExt) and o.tag == 'LpProblem': return {('ghost', 'objective')}
            if isinstance(o, VRef) or t.attr in SCHEMA: return {('heap', t.attr)}
            raise Undecided('cannot determine frame of write to .%s (line %d)' % (t.attr, t.lineno))
        if isinstance(t, (ast.Tuple, ast.List)):
            out = set()
            for x in t.elts: out |= self.root_mod(x, p)
            return out
        raise Undecided('frame of %s' % type(t).__name__)

    def mods_of(self, stmts, p):
        out = set()
        for n in ast.walk(ast.Module(body=list(stmts), type_ignores=[])):
            if isinstance(n, ast.Assign):
                for t in n.targets: out |= self.root_mod(t, p)
            elif isinstance(n, ast.AugAssign): out |= self.root_mod(n.target, p)
            elif isinstance(n, ast.For): out |= self.mods_of_target(n.target)
            elif isinstance(n, ast.Call):
                if isinstance(n.func, ast.Attribute) and n.func.attr in MUTATORS:
                    try: out |= self.root_mod(n.func.value, p)
                    except Undecided: pass
                out |= self.call_mods(n, p)
        return out
