"""Calls: builtins, list/str methods, modular calls by contract, inlined repo functions, external models."""
import ast
import z3
from .values import *
from .core import *


class CallMixin:
    # ---------------------------------------------------------------- statement-level calls (may fork)
    def call_stmt(self, e, p, target):
        """Execute `target = <call>` (target None: expression statement; '__ret__': return value)."""
        f = e.func
        # list mutators
        if isinstance(f, ast.Attribute) and f.attr in ('append', 'extend'):
            recv = self.ev(f.value, p)
            if isinstance(recv, (VList, VCList, VNone)):
                a = self.ev(e.args[0], p)
                if f.attr == 'append': new = self.list_append(recv, a, p, e.lineno)
                else:
                    if isinstance(recv, VCList) and isinstance(a, VCList): new = VCList(recv.items + a.items)
                    else: raise Undecided('extend on symbolic list')
                self.lv_set(f.value, new, p, e.lineno)
                return self.finish_call(VNone(), p, target, e.lineno)
        if isinstance(f, ast.Attribute) and f.attr == 'update':
            recv = self.ev(f.value, p)
            if isinstance(recv, VMap):
                o = self.ev(e.args[0], p)
                if not isinstance(o, VMap): raise Undecided('dict.update argument')
                has = fresh('mhas', recv.has.sort()); val = fresh('mval', recv.val.sort()); a = fresh('ma', I); b = fresh('mb', I)
                oh = z3.Select(z3.Select(o.has, a), b)
                p.assume(z3.ForAll([a, b], z3.And(z3.Select(z3.Select(has, a), b) == z3.Or(oh, z3.Select(z3.Select(recv.has, a), b)),
                                                  z3.Select(z3.Select(val, a), b) == z3.If(oh, z3.Select(z3.Select(o.val, a), b), z3.Select(z3.Select(recv.val, a), b)))))
                self.lv_set(f.value, VMap(has, val), p, e.lineno)
                return self.finish_call(VNone(), p, target, e.lineno)
        callee = self.resolve(e, p)
        if callee[0] == 'inline':
            _, fn, selfv = callee
            args, kwargs = self.eval_args(e, p)
            return self.inline_call(fn, selfv, args, kwargs, p, target, e.lineno)
        if callee[0] == 'exit':
            for a in e.args: self.ev(a, p)
            return [('exit', p, 2)]
        if callee[0] == 'stmtmodel':
            return callee[1](self, e, p, target)
        v = self.ev_Call(e, p, callee)
        return self.finish_call(v, p, target, e.lineno)

    def finish_call(self, v, p, target, line):
        if target is None: pass
        elif isinstance(target, str): p.env[target] = v
        else: self.lv_set(target, v, p, line)
        return [('normal', p, None)]

    def eval_args(self, e, p):
        args = [self.ev(a, p) for a in e.args]
        kwargs = {k.arg: self.ev(k.value, p) for k in e.keywords}
        return args, kwargs

    # ---------------------------------------------------------------- resolution
    def resolve(self, e, p):
        f = e.func
        if isinstance(f, ast.Name):
            n = f.id
            # in a specification a macro / spec function called by name is that macro even if the program has a local of the same name
            if self.spec_mode and (n in self.defs or n in SPECFUNS or n in self.spec_ext) and not (n in p.env and n not in self.defs): return ('spec', n)
            if n in p.env: raise Undecided('call of local value ' + n)
            if n in self.ext_models: return ('model', self.ext_models[n])
            if n in self.stmt_models: return ('stmtmodel', self.stmt_models[n])
            if n in BUILTINS: return ('builtin', n)
            if self.spec_mode and (n in SPECFUNS or n in self.defs or n in self.spec_ext): return ('spec', n)
            fn = self.repo.find_function(self.fn.module, n) or self.find_imported(n)
            if fn is not None: return self.repo_callee(fn, None)
            cls_init = self.repo.find_method(n, '__init__')
            if cls_init is not None or any(f.qualname.startswith(n + '.') for f in self.repo.funcs.values()):
                return ('new', n, cls_init)
            raise Undecided('call of unknown function %s at line %d' % (n, e.lineno))
        if isinstance(f, ast.Attribute):
            dotted = self.dotted(f)
            if dotted is not None:
                if dotted in self.stmt_models: return ('stmtmodel', self.stmt_models[dotted])
                if dotted in self.ext_models: return ('model', self.ext_models[dotted])
            recv = self.ev(f.value, p)
            if isinstance(recv, VExt) and recv.tag == 'parser' and f.attr == 'error': return ('exit',)
            if isinstance(recv, VObj):
                fn = self.repo.find_method(recv.cls, f.attr)
                if fn is not None: return self.repo_callee(fn, recv)
                key = recv.cls + '.' + f.attr
                if key in self.ext_models: return ('method_model', self.ext_models[key], recv)
                raise Undecided('unknown method %s.%s' % (recv.cls, f.attr))
            if isinstance(recv, VRef):
                fn = self.repo.find_method('Pair', f.attr)
                if fn is not None: return self.repo_callee(fn, recv)
            if isinstance(recv, VExt) and recv.tag == 'attr' and isinstance(recv.data[0], VExt):
                key = recv.data[0].tag + '.' + recv.data[1] + '.' + f.attr
                if key in self.ext_models: return ('model', self.ext_models[key])
            if isinstance(recv, VExt):
                key = recv.tag + '.' + f.attr
                if key in self.stmt_models: return ('stmtmodel', self.stmt_models[key])
                if key in self.ext_models: return ('method_model', self.ext_models[key], recv)
                raise Undecided('no model for %s at line %d' % (key, e.lineno))
            return ('valmethod', recv, f.attr)
        raise Undecided('call form at line %d' % e.lineno)

    def dotted(self, f):
        parts = []
        while isinstance(f, ast.Attribute): parts.append(f.attr); f = f.value
        if isinstance(f, ast.Name) and f.id in self.module_names:
            parts.append(f.id); return '.'.join(reversed(parts))
        return None

    def find_imported(self, n):
        for k, fn in self.repo.funcs.items():
            if fn.qualname == n: return fn
        return None

    def repo_callee(self, fn, selfv):
        c = self.contracts.get(fn.key)
        if c is None: raise Undecided('call to %s which has neither a contract nor an inline declaration' % fn.key)
        if c.get('inline') or fn.key in getattr(self, 'force_inline', ()): return ('inline', fn, selfv)      # force_inline: a per-function option (composition checks)
        if c.get('pure_text'): return ('model', lambda ex, p, args, kwargs, e, _n=fn.qualname: VStr([('pure', _n, args)]))
        return ('contract', fn, c, selfv)

    # ---------------------------------------------------------------- expression-level calls
    def ev_Call(self, e, p, callee=None):
        callee = callee or self.resolve(e, p)
        kind = callee[0]
        if kind == 'spec': return self.spec_call(callee[1], e, p)
        if kind == 'builtin': return self.builtin(callee[1], e, p)
        if kind == 'model':
            args, kwargs = self.eval_args(e, p); return callee[1](self, p, args, kwargs, e)
        if kind == 'method_model':
            args, kwargs = self.eval_args(e, p); return callee[1](self, p, [callee[2]] + args, kwargs, e)
        if kind == 'valmethod': return self.value_method(callee[1], callee[2], e, p)
        if kind == 'contract':
            args, kwargs = self.eval_args(e, p)
            return self.contract_call(callee[1], callee[2], callee[3], args, kwargs, p, e.lineno)
        if kind in ('inline', 'new'):
            args, kwargs = self.eval_args(e, p)
            if kind == 'new': res = self.new_object(callee[1], callee[2], args, kwargs, p, '__tmp__', e.lineno)
            else: res = self.inline_call(callee[1], callee[2], args, kwargs, p, '__tmp__', e.lineno)
            if len(res) != 1 or res[0][0] != 'normal': raise Undecided('inlined call forks inside an expression (line %d)' % e.lineno)
            return p.env.pop('__tmp__')
        if kind == 'exit': raise Undecided('parser.error inside an expression')
        raise Undecided('call kind ' + kind)

    # ---------------------------------------------------------------- inline
    def inline_call(self, fn, selfv, args, kwargs, p, target, line):
        if fn.key in self.inline_stack: raise Undecided('recursion through ' + fn.key)
        self.inlined[fn.key] = fn.sha256
        c = self.contracts.get(fn.key, {})
        names = [a.arg for a in fn.node.args.args]
        defaults = fn.node.args.defaults
        frame = {}
        if selfv is not None:
            frame[names[0]] = selfv; names = names[1:]
        for i, n in enumerate(names):
            if i < len(args): frame[n] = args[i]
            elif n in kwargs: frame[n] = kwargs[n]
            else:
                di = i - (len(names) - len(defaults))
                if di < 0: raise Undecided('missing argument %s in call to %s' % (n, fn.key))
                frame[n] = self.ev(defaults[di], p)
        saved = (p.env, p.alias, self.fn, self.contract)
        p.env = frame; p.alias = {}
        self.inline_stack.append(fn.key); self.fn = fn; self.contract = c
        try:
            res = self.exec_block(fn.node.body, [p])
        finally:
            self.inline_stack.pop(); self.fn, self.contract = saved[2], saved[3]
        out = []
        for st, q, pay in res:
            q.env = dict(saved[0]) if q is not p else saved[0]
            q.alias = dict(saved[1])
            if st == 'exit': out.append((st, q, pay)); continue
            if st not in ('normal', 'return'): raise Undecided('break/continue escaping a function')
            v = pay if st == 'return' else VNone()
            out += self.finish_call(v, q, target, line)
        p.env = saved[0]
        return out

    def new_object(self, cls, init, args, kwargs, p, target, line):
        if cls == 'Pair':
            r = fresh('pair', I)
            alloc = p.ghost.get('alloc')
            if alloc is None: alloc = z3.Array('ALLOC', I, B)
            p.assume(r >= 0); p.assume(z3.Not(z3.Select(alloc, r)))
            p.ghost['alloc'] = z3.Store(alloc, r, z3.BoolVal(True))
            for a in SCHEMA: p.assume(z3.Not(z3.Select(self.has_get(p, a), r)))
            selfv = VRef(r)
        else:
            oid = self.new_oid(); p.objs[oid] = {}
            selfv = VObj(oid, cls)
        if init is None: return self.finish_call(selfv, p, target, line)
        res = self.inline_call(init, selfv, args, kwargs, p, None, line)
        out = []
        for st, q, pay in res:
            if st == 'normal': out += self.finish_call(selfv, q, target, line)
            else: out.append((st, q, pay))
        return out

    def new_oid(self):
        self.oid_counter[0] += 1; return 'o%d' % self.oid_counter[0]

    # ---------------------------------------------------------------- modular call
    def contract_call(self, fn, c, selfv, args, kwargs, p, line):
        names = [a.arg for a in fn.node.args.args]
        cenv = {}
        if selfv is not None:
            cenv[names[0]] = selfv; names = names[1:]
        defaults = fn.node.args.defaults
        for i, n in enumerate(names):
            if i < len(args): cenv[n] = args[i]
            elif n in kwargs: cenv[n] = kwargs[n]
            else:
                di = i - (len(names) - len(defaults))
                if di < 0: raise Undecided('missing argument %s in call to %s' % (n, fn.key))
                cenv[n] = self.ev(defaults[di], p)
        self.coerce_obligations = []
        for n, k in c.get('params', {}).items():
            if n in cenv: cenv[n] = self.coerce(cenv[n], k)
        for i, t in enumerate(self.coerce_obligations):
            self.vc('call-pre/%s/argument-is-a-list@%d' % (fn.qualname, line), p, t, kind='call-pre', line=line)
        site = self.contract.get('call_ghost', {}).get(fn.qualname, {})
        for g, k in c.get('ghost', {}).items():
            if g in site: cenv[g] = self.spec_value(site[g], p)
            else: cenv[g] = self.ghost_default(g, k, p)
        pre = p.fork()
        q = p.fork(); q.env = cenv
        saved = (self.contract, self.defs)
        self.contract = c; self.defs = dict(self.global_defs); self.defs.update(c.get('defs', {}))
        try:
            for i, src in enumerate(c.get('requires', [])):
                name, src = (src[0], src[1]) if isinstance(src, tuple) else ('req%d' % i, src)
                t = self.spec_eval(src, q)
                self.vc('call-pre/%s/%s@%d' % (fn.qualname, name, line), p, t, kind='call-pre', line=line)
            # frame
            for m in c.get('modifies', []):
                mods = self.resolve_mod(m, q)
                self.havoc(mods, p, '@call%d' % line)
                # a field the callee creates (absent before the call): it exists afterwards, with its declared kind
                for mm in mods:
                    if mm[0] == 'field' and mm[2] not in p.objs[mm[1]]:
                        o = self.spec_value_ast(ast.parse(m, mode='eval').body.value, q)
                        k = c.get('self_fields', {}).get(mm[2]) if o is selfv else None
                        if k is None: k = self.field_kind(o.cls, mm[2])
                        if isinstance(k, tuple) and k[0] == 'absent': k = k[1]
                        if k is not None:
                            from .engine import wf
                            p.objs[mm[1]][mm[2]] = self.make_value(k, '%s@call%d' % (mm[2], line), p); p.assume(wf(p.objs[mm[1]][mm[2]]))
                            if not hasattr(self, 'maybe_absent'): self.maybe_absent = set()
                            self.maybe_absent.add((mm[1], mm[2]))
            q.heap = dict(p.heap); q.has = dict(p.has); q.objs = p.objs; q.ghost = p.ghost
            # the callee's recorded ghost histories are existentially quantified for the caller: fresh arrays per call
            saved_rk = self.rec_kinds
            self.rec_kinds = dict(self.rec_kinds)
            for lc in c.get('loops', {}).values():
                for nm, (kd, *_r) in lc.get('record', {}).items():
                    p.ghost['rec:' + nm] = fresh('REC_%s_%s@%d' % (fn.qualname.split('.')[-1], nm, line), z3.ArraySort(I, sort_of(kd)))
                    self.rec_kinds[nm] = kd
            # locals of the callee that its postconditions mention: existential witnesses for the caller (fresh values)
            for nm, k in c.get('late_locals', {}).items():
                from .engine import wf
                q.env[nm] = self.make_value(k, '%s_%s@%d' % (fn.qualname.split('.')[-1], nm, line), p); p.assume(wf(q.env[nm]))
            rk = c.get('returns')
            res = self.make_object(rk[1], p, 'ret_%s@%d' % (fn.qualname, line)) if isinstance(rk, tuple) and rk[0] == 'obj' else self.make_result(rk, fn.qualname + '@%d' % line)
            if res is not None:
                self.bind_result(q.env, res)
                from .engine import wf
                p.assume(wf(res))
                if 'listsets' in c.get('theory', []):
                    from . import listsets
                    for x in ([res] if isinstance(res, VList) else (res.items if isinstance(res, VTuple) else [])):
                        if isinstance(x, VList) and x.kind in listsets.KINDS:      # read rule (LISTSET/iterate: entry-is-element)
                            t = fresh('rt', I)
                            p.assume(z3.ForAll([t], z3.Implies(z3.And(0 <= t, t < x.len), z3.Select(listsets.Elems(x.term()), z3.Select(x.arr, t)))))
            self.old_stack.append(pre)
            try:
                for i, src in enumerate(c.get('ensures', [])):
                    name, src = src if isinstance(src, tuple) else ('ens%d' % i, src)
                    try: p.assume(self.spec_eval(src, q))
                    except Undecided as ex:
                        # a postcondition about fields this caller's state does not hold (created by the callee with no
                        # declared kind): the fact is simply not available to the caller
                        if 'has no field' not in str(ex): raise
            finally:
                self.old_stack.pop()
                self.rec_kinds = saved_rk
        finally:
            self.contract, self.defs = saved
        # lemma uses anchored after this call (the callee's result is visible as `result`)
        anchor = 'after_call:' + fn.qualname.split('.')[-1]
        if self.contract.get('use_lemmas', {}).get(anchor) or self.contract.get('asserts', {}).get(anchor):
            had = p.env.get('result'); p.env['result'] = res if res is not None else VNone()
            try: self.apply_lemmas(anchor, p)
            finally:
                if had is None: p.env.pop('result', None)
                else: p.env['result'] = had
        return res if res is not None else VNone()

    def coerce(self, v, k):
        """Adapt an actual argument to the declared parameter kind (concrete lists -> symbolic lists)."""
        if isinstance(k, tuple) and k[0] == 'list' and isinstance(v, VCList):
            return wrap(k, self.to_elem(k, v))
        if isinstance(k, tuple) and k[0] == 'list' and isinstance(v, VUnion):
            # None | list: passing it where a list is required obliges the caller to exclude the other alternatives
            lists = [(c, x) for c, x in v.alts if isinstance(x, VList) and x.kind == k[1]]
            if len(lists) == 1:
                self.coerce_obligations.append(lists[0][0])
                return lists[0][1]
        return v

    def ghost_default(self, g, k, p):
        raise StaleContract('call site gives no witness for ghost parameter %s' % g)

    def make_result(self, k, name):
        if k is None: return None
        if isinstance(k, tuple) and k[0] == 'statusstr': return VStr([('status', fresh('ret_' + name + '.code', I))])      # one of PuLP's five status texts
        return fresh_of_kind('ret_' + name, k)

    def bind_result(self, env, res):
        env['result'] = res
        if isinstance(res, VTuple):
            for i, x in enumerate(res.items): env['result%d' % i] = x

    def resolve_mod(self, m, q):
        """'heap:attr' | 'self.a.b' (field) | 'ghost:name' -> frame entries."""
        if m.startswith('heap:'): return {('heap', m[5:])}
        if m.startswith('ghost:'): return {('ghost', m[6:])}
        t = ast.parse(m, mode='eval').body
        if not isinstance(t, ast.Attribute): raise StaleContract('modifies entry ' + m)
        o = self.spec_value_ast(t.value, q)
        if not isinstance(o, VObj): raise StaleContract('modifies entry %s is not an object field' % m)
        return {('field', o.oid, t.attr)}

    def call_mods(self, n, p):
        """Frame contribution of a call inside a loop body (syntactic)."""
        try: callee = self.resolve_quiet(n, p)
        except (Undecided, StaleContract): return set()
        if callee is None: return set()
        kind = callee[0]
        if kind == 'contract':
            fn, c, selfv = callee[1], callee[2], callee[3]
            q = p.fork(); names = [a.arg for a in fn.node.args.args]
            if selfv is not None: q.env = {names[0]: selfv}
            out = set()
            for m in c.get('modifies', []):
                try: out |= self.resolve_mod(m, q)
                except (Undecided, StaleContract): raise Undecided('frame of call to %s' % fn.key)
            return out
        if kind == 'inline':
            fn, selfv = callee[1], callee[2]
            q = p.fork(); names = [a.arg for a in fn.node.args.args]
            q.env = {}
            if selfv is not None: q.env[names[0]] = selfv
            saved = (self.fn, self.contract); self.fn = fn; self.contract = self.contracts.get(fn.key, {})
            try: inner = self.mods_of(fn.node.body, q)
            finally: self.fn, self.contract = saved
            return {m for m in inner if m[0] != 'name'}
        if kind in ('model', 'method_model', 'stmtmodel'):
            f = callee[1]
            return set(getattr(f, 'mods', lambda ex, n, p: set())(self, n, p))
        return set()

    def resolve_quiet(self, n, p):
        was = self.spec_mode; self.spec_mode = True
        try:
            f = n.func
            if isinstance(f, ast.Attribute) and f.attr in ('append', 'extend'): return None
            return self.resolve(n, p)
        finally:
            self.spec_mode = was

    # ---------------------------------------------------------------- builtins
    def builtin(self, n, e, p):
        a = [self.ev(x, p) for x in e.args]; line = e.lineno
        if n == 'len':
            v = a[0]
            if isinstance(v, VList): return VInt(v.len)
            if isinstance(v, (VCList, VTuple)): return VInt(len(v.items))
            if isinstance(v, VPy): return self.py_len(v, p, line)
            if isinstance(v, VUnion):
                out = None
                for c, x in v.alts:
                    if isinstance(x, VList): out = x.len if out is None else z3.If(c, x.len, out)
                    elif isinstance(x, (VCList, VTuple)): out = z3.IntVal(len(x.items)) if out is None else z3.If(c, z3.IntVal(len(x.items)), out)
                    else: self.vc('no-raise/len-of-%s@%d' % (type(x).__name__, line), p, z3.Not(c), line=line)
                if out is not None: return VInt(out)
            if isinstance(v, VNone):
                self.vc('no-raise/len-of-None@%d' % line, p, z3.BoolVal(False), line=line)
            raise Undecided('len of %r' % (v,))
        if n == 'str':
            v = a[0]
            if isinstance(v, VInt): return VStr([('int', v.t)])
            if isinstance(v, VReal): return VStr([('real', v.t)])
            if isinstance(v, VBool): return VStr([('bool', v.t)])
            if isinstance(v, VStr): return v
            if isinstance(v, VTuple): return VStr([('tuple', v)])
            if isinstance(v, VOpt): return VStr([('opt', v.t)])
            if isinstance(v, VEnum): return VStr([v.cls + '.' + v.name])
            if isinstance(v, VEnumSym): return VStr([('enum', v.cls, v.t)])
            if isinstance(v, VRef): return self.str_of_ref(v, p, line)
            if isinstance(v, (VUnion, VList, VCList)): return VStr([('val', v)])
            raise Undecided('str of %r' % (v,))
        if n == 'int':
            v = a[0]
            if isinstance(v, VInt): return v
            if isinstance(v, VBool): return VInt(z3.If(v.t, 1, 0))
            if isinstance(v, VDiv):
                self.vc('subset/int-truediv-range@%d' % line, p, z3.And(v.a >= 0, v.b >= 1), kind='subset', line=line)
                return VInt(v.a / v.b)
            if isinstance(v, VTok):
                k = Tok.kind(v.t)
                self.vc('no-raise/int-of-token@%d' % line, p,
                        z3.And(z3.Implies(k == 1, z3.BoolVal('(' in v.removed)), z3.Implies(k == 2, z3.BoolVal(')' in v.removed))), line=line)
                return VInt(Tok.val(v.t))
            if isinstance(v, VStr) and len(v.atoms) == 1 and isinstance(v.atoms[0], tuple) and v.atoms[0][0] == 'int':
                return VInt(v.atoms[0][1])
            raise Undecided('int of %r' % (v,))
        if n == 'float':
            v = a[0]
            if isinstance(v, VReal): return v
            if isinstance(v, VInt): return VReal(z3.ToReal(v.t))
            if isinstance(v, VDiv): return VReal(z3.ToReal(v.a) / z3.ToReal(v.b))
            raise Undecided('float of %r' % (v,))
        if n in ('max', 'min'):
            if len(a) == 1:
                v = a[0]
                if isinstance(v, VList) and v.kind == 'int':
                    self.vc('no-raise/%s-of-empty@%d' % (n, line), p, v.len > 0, line=line)
                    return self.list_extreme(n, v, p)
                raise Undecided('%s of %r' % (n, v))
            ts = [self.num(x, n, p, line) for x in a]
            if any(r for _, r in ts): raise Undecided('real max/min')
            out = ts[0][0]
            for t, _ in ts[1:]: out = z3.If(t > out, t, out) if n == 'max' else z3.If(t < out, t, out)
            return VInt(out)
        if n == 'sum':
            v = a[0]
            if isinstance(v, VList) and v.kind == 'int': return VInt(self.lemmas.SumA(v.arr, v.len))
            raise Undecided('sum of %r' % (v,))
        if n == 'abs':
            t, r = self.num(a[0], 'abs', p, line)
            return VReal(z3.If(t >= 0, t, -t)) if r else VInt(z3.If(t >= 0, t, -t))
        if n == 'pow':
            return self.binop(ast.Pow(), a[0], a[1], p, line)
        if n == 'isinstance':
            v = a[0]; ty = a[1]
            if isinstance(ty, VExt) and ty.tag == 'type':
                if isinstance(v, VPy): return VBool(Py.is_plist(v.t) if ty.data == 'list' else Py.is_pint(v.t) if ty.data == 'int' else z3.BoolVal(False))
                if ty.data == 'list': return VBool(isinstance(v, (VList, VCList)))
                if ty.data == 'int': return VBool(isinstance(v, (VInt, VBool)))
            raise Undecided('isinstance')
        if n == 'hasattr':
            v = a[0]; name = a[1]
            if not (isinstance(name, VStr) and len(name.atoms) == 1 and isinstance(name.atoms[0], str)): raise Undecided('hasattr name')
            nm = name.atoms[0]
            if isinstance(v, VRef):
                if nm not in SCHEMA: return VBool(False)
                return VBool(z3.Select(self.has_get(p, nm), v.t))
            if isinstance(v, VObj): return VBool(nm in p.objs[v.oid] or self.repo.find_method(v.cls, nm) is not None)
            raise Undecided('hasattr on %r' % (v,))
        if n == 'list':
            v = a[0]
            if isinstance(v, (VList, VCList)): return v
            if isinstance(v, VExt) and v.tag == 'rangeobj': return v
            raise Undecided('list() of %r' % (v,))
        if n == 'range':
            return VExt('rangeobj', a)
        if n == 'print': return VNone()
        raise Undecided('builtin ' + n)

    def list_extreme(self, n, v, p):
        """max/min of a non-empty int list: fresh m with the defining property (bound + attained)."""
        m = fresh(n, I); j = fresh('mj', I); w = fresh('mw', I)
        le = (lambda x, y: x <= y) if n == 'max' else (lambda x, y: x >= y)
        p.assume(z3.ForAll([j], z3.Implies(z3.And(0 <= j, j < v.len), le(z3.Select(v.arr, j), m))))
        p.assume(z3.Implies(v.len > 0, z3.And(0 <= w, w < v.len, z3.Select(v.arr, w) == m)))
        return VInt(m)

    # ---------------------------------------------------------------- methods on values
    def value_method(self, recv, name, e, p):
        a = [self.ev(x, p) for x in e.args]; line = e.lineno
        if isinstance(recv, VStr):
            if name == 'join':
                return VStr([('join', recv.atoms[0] if recv.atoms else '', a[0])])
            if name == 'format':
                lit = recv.atoms
                if len(lit) != 1 or not isinstance(lit[0], str) or lit[0].count('{}') != len(a): raise Undecided('format string')
                parts = lit[0].split('{}'); atoms = []
                for i, x in enumerate(a):
                    atoms.append(parts[i]); atoms += self.builtin_str(x, p, line).atoms
                atoms.append(parts[-1])
                return VStr(atoms)
            if name == 'replace': return self.str_replace(recv, a, p, line)
            if name == 'split': return self.str_split(recv, a, p, line)
        if isinstance(recv, VLine):
            from . import models_basic
            if name == 'replace' and len(a) == 2 and isinstance(a[0], VStr) and a[0].atoms == [':'] and isinstance(a[1], VStr) and not a[1].atoms: return recv
            if name == 'split' and not a:
                p.assume(models_basic.LTOKLEN(recv.t) >= 0)
                return models_basic.line_tokens(self, recv.t)
            raise Undecided('line method ' + name)
        if isinstance(recv, VReal) and name == 'total_seconds': return recv          # timedelta modelled as seconds (T12)
        if isinstance(recv, VReal) and name == 'strftime': return VStr([('pure', 'strftime', [recv])])
        if isinstance(recv, VTok) and name == 'replace':
            if len(a) == 2 and isinstance(a[0], VStr) and a[0].atoms in (['('], [')']) and isinstance(a[1], VStr) and not a[1].atoms:
                return VTok(recv.t, recv.removed | {a[0].atoms[0]})
            raise Undecided('token replace')
        if isinstance(recv, VList) and name == 'count':
            return self.list_count(recv, a[0], p, line)
        if isinstance(recv, VMap) and name == 'update':
            raise Undecided('dict.update in expression')
        raise Undecided('method %s on %r at line %d' % (name, recv, line))

    def builtin_str(self, x, p, line):
        fake = ast.Call(func=ast.Name(id='str'), args=[], keywords=[], lineno=line)
        if isinstance(x, VInt): return VStr([('int', x.t)])
        if isinstance(x, VStr): return x
        if isinstance(x, VReal): return VStr([('real', x.t)])
        raise Undecided('format of %r' % (x,))

    def list_count(self, lst, x, p, line):
        if lst.kind == 'strint' and isinstance(x, VStr):
            k, t = self.str_to_elem(x, 'strint')
            j = fresh('cntj', I)
            return VInt(self.lemmas.SumA(self.lemmas.named_array(j, z3.If(z3.Select(lst.arr, j) == t, z3.IntVal(1), z3.IntVal(0)), []), lst.len))
        raise Undecided('list.count')

    def str_replace(self, recv, a, p, line): raise Undecided('str.replace at line %d' % line)

    def str_split(self, recv, a, p, line): raise Undecided('str.split at line %d' % line)

    def str_of_ref(self, v, p, line):
        fn = self.repo.find_method('Pair', '__str__')
        if fn is None: raise Undecided('str(pair)')
        res = self.inline_call(fn, v, [], {}, p, '__str__', line)
        if len(res) != 1 or res[0][0] != 'normal': raise Undecided('Pair.__str__ forks')
        return p.env.pop('__str__')


BUILTINS = {'sum', 'len', 'str', 'int', 'float', 'max', 'min', 'abs', 'pow', 'isinstance', 'hasattr', 'list', 'range', 'print'}
SPECFUNS = {'prev', 'forall', 'exists', 'implies', 'ite', 'old', 'kind', 'value', 'Sum', 'Count', 'iff', 'forall2', 'tok',
            'select', 'has', 'attr', 'store_len', 'nu', 'Tot', 'alloc', 'real', 'SumR', 'opt_is_none', 'opt_val',
            'map_has', 'map_get', 'attr_eq_old', 'printed_int', 'printed', 'status_code', 'has_text', 'ENUM_len', 'rec', 'joined', 'after', 'lam', 'is_list', 'is_int', 'py_int', 'py_head', 'py_tail', 'py_len', 'elems', 'pelems', 'dupfree', 'appended', 'lemma', 'ModelWF', 'unchanged', 'distinct_refs', 'Row', 'LL', 'PL'}
