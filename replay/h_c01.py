"""C01 bounded stand-in: real Solver with real CBC on seeded random small instances and option sets vs. exhaustive enumeration."""
import lpcommon as LP, oracles as O

WANT = {'valid'}
RULE = ('seeded random instances (<= 4 students, <= 3 projects, <= 3 lecturers, 2-/3-agent, ties, lower quotas, zero capacities) with random '
        'admissible option sets (number of criteria in (0, 3), random positions / extras, -pc, -stab); checks ' + ', '.join(sorted(WANT)) +
        ' against the exhaustively enumerated feasible set; non-trivial = at least two feasible matchings')


def cases(rng, tier):
    for _ in range(120 if tier == 'quick' else 2500):
        yield 'solver_run', LP.rand_case(rng, ncrit=(0, 3))


def nontrivial(kind, inp): return len(O.feasible_set(inp['instance'], inp['pc'], inp['stab'])) >= 2


def run_case(kind, inp): return LP.run_and_check(inp, WANT)
