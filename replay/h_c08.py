"""C08 bounded stand-in: whole generator runs, files checked against the requested type and parameters."""
import genutil

RULE = ('seeded random accepted argument vectors for ha / sm / hr / spa (n <= 6, quota sums, tie probabilities incl. 0 and 1, skew in {0.5, 1, 3, 10}, '
        'one- / two-sided, explicit -llq / -lt / -luq), real Generator in a temporary directory; every file checked: names 0..k-1, header, '
        'numbered lists with pmin..pmax distinct agents in range, evenly spread quotas / targets / projects per lecturer (larger first, spread <= 1, '
        'sums as requested, lower <= target <= upper), ties 0 / 1, second-side lists only when two-sided, blank line + parameter block; '
        'non-trivial = every run')


def spread(n, s): return [s // n + (1 if i < s % n else 0) for i in range(n)]


def cases(rng, tier):
    for t in range(120 if tier == 'quick' else 2500):
        mp = rng.choice(['ha', 'sm', 'hr', 'spa'])
        n1 = rng.randint(1, 6); n2 = n1 if mp == 'sm' else rng.randint(1, 6); n3 = rng.randint(1, 5)
        pmax = rng.randint(1, n2); pmin = rng.randint(1, pmax)
        a = dict(numinst=rng.randint(1, 2), n1=n1, pmin=pmin, pmax=pmax, t1=rng.choice([0.0, 1.0, 0.3]), skew=rng.choice([0.5, 1.0, 3.0, 10.0]))
        two = mp in ('sm', 'hr') or (mp == 'spa' and rng.random() < 0.6)
        if mp != 'sm':
            a['n2'] = n2; a['uq'] = rng.randint(n2, n2 + 5); a['lq'] = rng.randint(0, a['uq'])
        if two: a['twopl'] = True; a['t2'] = rng.choice([0.0, 1.0, 0.4])
        if mp == 'spa':
            a['n3'] = n3; a['luq'] = rng.randint(1, 8); a['lt'] = rng.randint(0, a['luq']); a['llq'] = rng.randint(0, a['lt'])
            if rng.random() < 0.35:      # parameter vectors near the edge of what the option parser accepts
                a['llq'] = rng.randint(0, a['luq'] + 1); a['lt'] = rng.randint(0, a['luq'] + 1)
        yield 'generator_run', dict(mp=mp, args=a, seed=rng.randint(0, 10 ** 6))


def nontrivial(kind, inp): return True


def to_argv(mp, a):
    out = ['-mp', mp]
    for k, v in a.items():
        if k == 'twopl': out.append('-twopl')
        else: out += ['-' + k, repr(v) if isinstance(v, float) else str(v)]
    return out


def run_case(kind, inp):
    mp, a = inp['mp'], inp['args']; spa = mp == 'spa'
    r = genutil.run_generator(to_argv(mp, a), inp['seed'])
    F = 'generate_instances'
    if r['status'] == 'raise':               # an accepted argument vector must lead to files, not to an exception (a clean refusal is exit 2: C15)
        return dict(expected='the requested files', observed=r['error'], function=F, what='raise')
    if r['status'] != 'ok': return None        # acceptance of argument vectors is C15's obligation
    n1 = a['n1']; n2 = a['n1'] if mp == 'sm' else a['n2']; n3 = a.get('n3', 0); two = a.get('twopl', False)
    uq = n1 if mp == 'sm' else a['uq']; lq = a.get('lq', 0)
    want = sorted('%d.txt' % i for i in range(a['numinst']))
    if sorted(r['files']) != want: return dict(expected=want, observed=sorted(r['files']), function=F, what='files')
    for name, text in r['files'].items():
        try: I = genutil.parse_instance(text, spa)
        except Exception as ex: return dict(expected='well-formed file', observed='%s in %r' % (ex, text[:160]), function='create_instance', what='format')
        if (I['n1'], I['n2'], I['n3']) != (n1, n2, n3): return dict(expected=(n1, n2, n3), observed=(I['n1'], I['n2'], I['n3']), function='create_instance', what='header')
        for f in I['first']:
            v = f['vals']
            if not (a['pmin'] <= len(v) <= a['pmax']) or len(set(v)) != len(v) or not all(1 <= x <= n2 for x in v):
                return dict(expected='%d..%d distinct agents in 1..%d' % (a['pmin'], a['pmax'], n2), observed=v, function='create_pref_lists_original', what='first-side-list')
            if a['t1'] == 0.0 and any(len(g) > 1 for g in f['groups']): return dict(expected='no ties (t1 = 0)', observed=f['groups'], function='create_ties_indicators', what='ties-t1-0')
            if a['t1'] == 1.0 and len(f['groups']) > 1: return dict(expected='fully tied list (t1 = 1)', observed=f['groups'], function='create_ties_indicators', what='ties-t1-1')
        lqs, uqs = spread(n2, lq), spread(n2, uq)
        for j, s in enumerate(I['second']):
            if (s['lq'], s['uq']) != (lqs[j], uqs[j]): return dict(expected='quotas %d..%d' % (lqs[j], uqs[j]), observed=(s['lq'], s['uq']), function='create_quotas', what='second-side-quotas')
        if spa:
            cnt = spread(n3, n2); e = [k + 1 for k in range(n3) for _ in range(cnt[k])]
            if [s['lect'] for s in I['second']] != e: return dict(expected=e, observed=[s['lect'] for s in I['second']], function='Generator_spa.create_project_lecturers', what='project-lecturers')
            L = (spread(n3, a['llq']), spread(n3, a['lt']), spread(n3, a['luq']))
            for k, l in enumerate(I['lect']):
                if (l['lq'], l['tgt'], l['uq']) != (L[0][k], L[1][k], L[2][k]): return dict(expected=(L[0][k], L[1][k], L[2][k]), observed=(l['lq'], l['tgt'], l['uq']), function='create_quotas', what='lecturer-quotas')
                if not (l['lq'] <= l['tgt'] <= l['uq']): return dict(expected='lower <= target <= upper', observed=(l['lq'], l['tgt'], l['uq']), function='Instance_options_parser.parse', what='lecturer-quota-order')
                if not two and l['vals']: return dict(expected='no lecturer list (one-sided)', observed=l['vals'], function='Generator_spa.create_instance', what='second-side-list-present')
                if two and a.get('t2') == 0.0 and any(len(g) > 1 for g in l['groups']): return dict(expected='no ties (t2 = 0)', observed=l['groups'], function='create_ties_indicators', what='ties-t2-0')
                if two and a.get('t2') == 1.0 and len(l['groups']) > 1: return dict(expected='fully tied (t2 = 1)', observed=l['groups'], function='create_ties_indicators', what='ties-t2-1')
        else:
            for s in I['second']:
                if not two and s['vals']: return dict(expected='no second-side list (one-sided)', observed=s['vals'], function='Generator_ha_sm_hr.create_instance', what='second-side-list-present')
                if two and a.get('t2') == 0.0 and any(len(g) > 1 for g in s['groups']): return dict(expected='no ties (t2 = 0)', observed=s['groups'], function='create_ties_indicators', what='ties-t2-0')
                if two and a.get('t2') == 1.0 and len(s['groups']) > 1: return dict(expected='fully tied (t2 = 1)', observed=s['groups'], function='create_ties_indicators', what='ties-t2-1')
        if not I['info'] or I['info'][0] != 'instance generation parameters': return dict(expected='parameter block', observed=I['info'][:1], function='create_instance_info', what='parameter-block')
    return None
