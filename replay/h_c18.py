"""C18 bounded stand-in: call sequences over {solve, get_results, get_results_short, get_results_long, get_debug} on real Solver objects."""
import re
import lpcommon as LP, oracles as O, solverutil as S

RULE = ('seeded random small instances and option sets (LP mode with 0-2 criteria, -pc, -stab; brute-force mode), random call sequences of length '
        '<= 7 starting with solve; every getter must return the same text at every call between two solves (no exception), and after a re-solve '
        'the status, the value of every requested criterion and validity of the matching must be unchanged (timing lines excluded); '
        'non-trivial = the sequence contains at least two getter calls and a re-solve or a repeated getter')
GETTERS = ['get_results', 'get_results_short', 'get_results_long', 'get_debug']


def cases(rng, tier):
    for t in range(50 if tier == 'quick' else 1200):
        c = LP.rand_case(rng, ncrit=(0, 2), zero=(t % 2 == 0))
        c['bf'] = rng.random() < 0.3
        if c['bf']: c['crits'] = []; c['stab'] = False
        seq = ['solve']
        for _ in range(rng.randint(2, 6)): seq.append(rng.choice(GETTERS + GETTERS + ['solve']))
        c['calls'] = seq
        yield 'call_sequence', c


def nontrivial(kind, inp): return sum(1 for c in inp['calls'] if c != 'solve') >= 2


def strip_times(t):
    return re.sub(r'(time_\w+_seconds: |# Results for the run conducted on ).*', r'\1<t>', t) if t else t


def run_case(kind, inp):
    I = inp['instance']
    flags = LP.flags_of(inp['crits'], inp['pc'], inp['stab']) + (['-bf'] if inp['bf'] else [])
    r = S.run_solver(I, flags, calls=inp['calls'])
    if r['status'] != 'ok':
        return dict(expected='every call in %r succeeds' % inp['calls'], observed='%s %s' % (r['status'], r['error']), function='Model.get_debug' if 'get_debug' in str(r['error']) or 'varValue' in str(r['error']) or 'lp_var' in str(r['error']) else 'Solver.solve', what='raise-' + str(r['error']).split(':')[0])
    texts = r['texts']; seen = {}; epoch = 0; first_epoch = {}
    for c, t in zip(inp['calls'], texts):
        if c == 'solve': epoch += 1; seen = {}; continue
        t2 = strip_times(t)
        if c in seen and seen[c] != t2: return dict(expected='same text from %s between solves' % c, observed='text changed', function='Model.get_results', what='getter-not-idempotent')
        seen[c] = t2
        if c != 'get_debug':
            key = c
            sig = (S.field(t, 'pulp_status'), S.field(t, 'size'), S.field(t, 'cost'), S.field(t, 'profile'), S.field(t, 'max_lec_abs_diff'), S.field(t, 'sum_lec_abs_diff')) if not inp['bf'] else strip_times(t)
            if not inp['bf'] and not inp['crits']: sig = sig[:1]
            elif not inp['bf']:
                # only the requested criteria are determined; compare status + the measures of the requested criteria
                pm = LP.printed_matching(I, t); M = O.from_projects(I, pm) if pm else None
                sig = (sig[0],) + tuple(LP.measure(I, M, cr, ex) for cr, _, ex in sorted(inp['crits'], key=lambda z: z[1])) if M else (sig[0],)
                if M is not None and not O.valid(I, M, inp['pc']): return dict(expected='valid matching after re-solve', observed=str(pm), function='LP_Solver.run', what='invalid-after-resolve')
            if key in first_epoch and first_epoch[key] != sig: return dict(expected='same status and criterion values after re-solve: %r' % (first_epoch[key],), observed=repr(sig), function='Solver.solve', what='resolve-differs')
            first_epoch.setdefault(key, sig)
    return None
