"""C13 bounded stand-in: all tie-decision vectors up to a length bound, writer then reader, on the real code."""
import itertools
from matchingproblems.generator.generator_shared import create_string_pref
from matchingproblems.solver.fileIO import _get_simple_pref_list_and_ranks

RULE = ('exhaustive: every list length n <= bound (quick 8, thorough 12) and every one of the 2^n tie-decision vectors, '
        'entries = a rotation of 1..n; real create_string_pref then real _get_simple_pref_list_and_ranks; '
        'non-trivial = n >= 2 and at least one decision set')


def cases(rng, tier):
    bound = 8 if tier == 'quick' else 12
    for n in range(0, bound + 1):
        for ties in itertools.product([0, 1], repeat=n):
            r = (sum(ties) * 7 + n) % max(n, 1)
            pref = [((i + r) % n) + 1 + 10 * (i % 3 == 0) for i in range(n)]
            yield 'writer_reader', dict(pref=pref, ties=list(ties))


def nontrivial(kind, inp): return len(inp['pref']) >= 2 and any(inp['ties'])


def run_case(kind, inp):
    pref, ties = inp['pref'], inp['ties']; n = len(pref)
    try:
        toks = create_string_pref(list(pref), list(ties))
    except Exception as ex:
        return dict(expected='token list', observed='writer raised %r' % ex, function='create_string_pref', what='raise')
    text = ' '.join(toks)
    # specification of the text: parentheses around maximal runs of tied entries
    eff = [bool(ties[j]) and j < n - 1 for j in range(n)]
    exp = []
    for j in range(n):
        prev = eff[j - 1] if j > 0 else False
        s = str(pref[j])
        if not prev and eff[j]: s = '(' + s
        if prev and not eff[j]: s = s + ')'
        exp.append(s)
    if list(toks) != exp:
        return dict(expected=' '.join(exp), observed=text, function='create_string_pref', what='text')
    try:
        vals, ranks = _get_simple_pref_list_and_ranks(text.split())
    except Exception as ex:
        return dict(expected='values and ranks', observed='reader raised %r on %r' % (ex, text),
                    function='_get_simple_pref_list_and_ranks', what='raise')
    er = []; cur = 1
    for j in range(n):
        er.append(cur)
        if not eff[j]: cur += 1
    if list(vals) != list(pref) or list(ranks) != er:
        return dict(expected=dict(values=pref, ranks=er), observed=dict(values=list(vals), ranks=list(ranks), text=text),
                    function='_get_simple_pref_list_and_ranks', what='ranks')
    return None
