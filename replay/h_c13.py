"""C13 bounded stand-in: all tie-decision vectors up to a length bound, writer then reader, on the real code."""
import itertools
from matchingproblems.generator.generator_shared import create_string_pref
from matchingproblems.solver.fileIO import _get_simple_pref_list_and_ranks

RULE = ('exhaustive: every list length n <= bound (quick 8, thorough 12) and every one of the 2^n tie-decision vectors, '
        'entries = a rotation of 1..n; real create_string_pref then real _get_simple_pref_list_and_ranks; '
        'non-trivial = n >= 2 and at least one decision set; plus 60 (quick) / 600 (thorough) random 2- and 3-agent instances written by the real '
        'create_instance and read back by the real import_model, one side tie-free in a third of them')


def cases(rng, tier):
    bound = 8 if tier == 'quick' else 12
    for n in range(0, bound + 1):
        for ties in itertools.product([0, 1], repeat=n):
            r = (sum(ties) * 7 + n) % max(n, 1)
            pref = [((i + r) % n) + 1 + 10 * (i % 3 == 0) for i in range(n)]
            yield 'writer_reader', dict(pref=pref, ties=list(ties))
    # whole files: every list is written by the real create_instance with ITS OWN tie vector and read back by the real import_model
    import oracles as O
    for t in range(60 if tier == 'quick' else 600):
        na = 3 if t % 2 else 2
        I = O.gen_instance(rng, rng.randint(1, 4), rng.randint(1, 4), rng.randint(1, 4), na=na, twopl=True, maxlen=4, maxq=2)
        if t % 3 == 0:      # one side without any tie, the other side tied (a vector of one side must not govern the other side)
            side = 'rows' if t % 2 else 'llists'
            I[side] = [[l, [0] * len(l)] for l, _ in I[side]]
        yield 'file_round_trip', dict(I=I)


def nontrivial(kind, inp):
    if kind == 'file_round_trip': return any(any(t) for _, t in inp['I']['rows']) or any(any(t) for _, t in inp['I']['llists'])
    return len(inp['pref']) >= 2 and any(inp['ties'])


def dense(ties):
    n = len(ties); out = []; cur = 1
    for j in range(n):
        out.append(cur)
        if not (ties[j] and j < n - 1): cur += 1
    return out


def file_round_trip(I):
    import tempfile, os
    from matchingproblems.generator.generator_spa import Generator_spa
    from matchingproblems.generator.generator_ha_sm_hr import Generator_ha_sm_hr
    from matchingproblems.solver import fileIO
    from matchingproblems.solver.enums import Instance_options
    F = [l for l, _ in I['rows']]; FT = [t for _, t in I['rows']]; S = [l for l, _ in I['llists']]; ST = [t for _, t in I['llists']]
    try:
        if I['na'] == 3:
            text = Generator_spa.create_instance(None, I['nS'], I['nP'], I['nL'], F, FT, I['lect'], I['plq'], I['puq'], S, ST, I['llq'], I['tgt'], I['luq'], 'info\n')
        else:
            text = Generator_ha_sm_hr.create_instance(None, I['nS'], I['nP'], F, FT, S, ST, I['plq'], I['puq'], 'info\n')
    except Exception as ex:
        return dict(expected='instance text', observed='create_instance raised %r' % ex, function='create_instance', what='raise')
    d = tempfile.mkdtemp(prefix='c13_'); fn = os.path.join(d, '0.txt')
    try:
        open(fn, 'w').write(text)
        try: m = fileIO.import_model(fn, {Instance_options.NUMAGENTS: I['na'], Instance_options.TWOPL: True, Instance_options.PC: False})
        except Exception as ex:
            return dict(expected='model', observed='import_model raised %r' % ex, function='import_model', what='raise', text=text)
    finally:
        try: os.remove(fn); os.rmdir(d)
        except OSError: pass
    for i, row in enumerate(m.pairs):
        if [p.projectID for p in row] != F[i] or [p.rank_student for p in row] != dense(FT[i]):
            return dict(expected=dict(list=F[i], ranks=dense(FT[i])), observed=dict(list=[p.projectID for p in row], ranks=[p.rank_student for p in row]),
                        function='create_instance / import_model', what='first-side ties of agent %d' % (i + 1), text=text)
        for p in row:
            k = p.lecturerID - 1; pos = S[k].index(p.studentID); want = dense(ST[k])[pos]
            if p.rank_lecturer != want:
                return dict(expected=want, observed=p.rank_lecturer, function='create_instance / import_model',
                            what='second-side ties: rank of %d on the list of %d' % (p.studentID, k + 1), text=text)
    return None


def run_case(kind, inp):
    if kind == 'file_round_trip': return file_round_trip(inp['I'])
    pref, ties = inp['pref'], inp['ties']; n = len(pref)
    try:
        toks = create_string_pref(list(pref), list(ties))
    except Exception as ex:
        return dict(expected='token list', observed='writer raised %r' % ex, function='create_string_pref', what='raise')
    text = ' '.join(toks)
    # specification of the text: parentheses around maximal runs of tied entries
    eff = [bool(ties[j]) and j < n - 1 for j in range(n)]
    exp = []
    for j in range(n):
        prev = eff[j - 1] if j > 0 else False
        s = str(pref[j])
        if not prev and eff[j]: s = '(' + s
        if prev and not eff[j]: s = s + ')'
        exp.append(s)
    if list(toks) != exp:
        return dict(expected=' '.join(exp), observed=text, function='create_string_pref', what='text')
    try:
        vals, ranks = _get_simple_pref_list_and_ranks(text.split())
    except Exception as ex:
        return dict(expected='values and ranks', observed='reader raised %r on %r' % (ex, text),
                    function='_get_simple_pref_list_and_ranks', what='raise')
    er = []; cur = 1
    for j in range(n):
        er.append(cur)
        if not eff[j]: cur += 1
    if list(vals) != list(pref) or list(ranks) != er:
        return dict(expected=dict(values=pref, ranks=er), observed=dict(values=list(vals), ranks=list(ranks), text=text),
                    function='_get_simple_pref_list_and_ranks', what='ranks')
    return None
