"""C15 bounded stand-in: legal argument vectors per problem type and all their single-fault perturbations,
run through the real Generator in a temporary directory."""
import genutil

RULE = ('per type: seeded legal base vectors (n <= 6) and every single-fault perturbation (one required parameter removed, '
        'one inapplicable parameter added, one bound violated); oracle = independent transcription of README + property '
        'bounds; checks accept => files 0..k-1 written without error, reject => exit code 2 and nothing written; '
        'non-trivial = every case (each is a distinct argument vector)')

REQ = {'ha': ['n1', 'n2', 'pmin', 'pmax', 'uq'], 'sm': ['n1', 'pmin', 'pmax', 'twopl'],
       'hr': ['n1', 'n2', 'pmin', 'pmax', 'uq', 'twopl'], 'spa': ['n1', 'n2', 'n3', 'pmin', 'pmax', 'uq', 'luq']}
BAN = {'ha': ['twopl', 'n3', 't2', 'llq', 'luq', 'lt'], 'sm': ['n2', 'n3', 'uq', 'lq', 'llq', 'luq', 'lt'],
       'hr': ['n3', 'llq', 'luq', 'lt'], 'spa': []}
FLOATS = {'t1', 't2', 'skew'}


def legal(mp, a):
    g = a.get
    for r in REQ[mp]:
        if g(r) is None or g(r) is False: return False
    for b in BAN[mp]:
        if g(b) is not None and g(b) is not False: return False
    n2e = g('n1') if mp == 'sm' else g('n2'); uqe = g('n1') if mp == 'sm' else g('uq')
    lq = g('lq') or 0; llq = g('llq') or 0; lt = g('lt') or 0
    ok = (g('numinst') >= 1 and g('n1') >= 1 and n2e >= 1 and (g('n3') is None or g('n3') >= 1)
          and 1 <= g('pmin') <= g('pmax') <= n2e
          and (g('t1') is None or 0 <= g('t1') <= 1) and (g('t2') is None or 0 <= g('t2') <= 1)
          and lq >= 0 and llq >= 0 and uqe >= n2e and lq <= uqe
          and (g('luq') is None or (g('luq') >= 1 and lt <= g('luq'))) and lt >= 0 and llq <= lt)
    return bool(ok)


def to_argv(mp, a):
    out = ['-mp', mp]
    for k, v in a.items():
        if v is None or v is False: continue
        if k == 'twopl': out.append('-twopl')
        else: out += ['-' + k, repr(v) if isinstance(v, float) else str(v)]
    return out


def base(rng, mp):
    n1 = rng.randint(1, 6); n2 = rng.randint(1, 6); n3 = rng.randint(1, 4)
    n2e = n1 if mp == 'sm' else n2
    pmax = rng.randint(1, n2e); pmin = rng.randint(1, pmax)
    a = dict(numinst=rng.randint(1, 2), n1=n1, pmin=pmin, pmax=pmax)
    if mp != 'sm': a['n2'] = n2; a['uq'] = n2 + rng.randint(0, 4)
    if mp in ('sm', 'hr'): a['twopl'] = True
    if mp == 'spa':
        a['n3'] = n3; a['luq'] = rng.randint(max(1, n3 - 2), n3 + 4)
        if rng.random() < 0.5: a['twopl'] = True
        if rng.random() < 0.5: a['lt'] = rng.randint(0, a['luq']); a['llq'] = rng.randint(0, a['lt'])
    if mp != 'sm' and rng.random() < 0.5: a['lq'] = rng.randint(0, a['uq'])
    if rng.random() < 0.5: a['t1'] = rng.choice([0.0, 0.4, 1.0])
    if mp != 'ha' and rng.random() < 0.5: a['t2'] = rng.choice([0.0, 0.6, 1.0])
    if rng.random() < 0.4: a['skew'] = rng.choice([0.5, 1.0, 3.0])
    return a


def perturbations(mp, a):
    for r in REQ[mp]:
        b = dict(a); b[r] = None; yield b
    for x, v in (('twopl', True), ('n2', 3), ('n3', 2), ('t2', 0.5), ('lq', 0), ('uq', 9), ('llq', 0), ('luq', 5), ('lt', 0)):
        if a.get(x) is None: b = dict(a); b[x] = v; yield b
    n2e = a['n1'] if mp == 'sm' else a['n2']
    for k, v in (('numinst', 0), ('n1', 0), ('n2', 0), ('n3', 0), ('pmin', 0), ('pmin', a['pmax'] + 1), ('pmax', n2e + 1),
                 ('t1', -0.1), ('t1', 1.5), ('t2', 1.01), ('lq', -1), ('llq', -1), ('lt', -1)):
        b = dict(a); b[k] = v; yield b
    if a.get('uq') is not None:
        b = dict(a); b['uq'] = a['n2'] - 1; yield b
        b = dict(a); b['lq'] = a['uq'] + 1; yield b
    if a.get('luq') is not None:
        b = dict(a); b['luq'] = 0; yield b
        b = dict(a); b['lt'] = a['luq'] + 1; yield b
        b = dict(a); b['lt'] = 1; b['llq'] = 2; yield b


def cases(rng, tier):
    reps = 3 if tier == 'quick' else 40
    for _ in range(reps):
        for mp in ('ha', 'sm', 'hr', 'spa'):
            a = base(rng, mp)
            yield 'gen_options_parse', dict(mp=mp, args=a, seed=rng.randint(0, 10 ** 6))
            for b in perturbations(mp, a):
                yield 'gen_options_parse', dict(mp=mp, args=b, seed=rng.randint(0, 10 ** 6))


def nontrivial(kind, inp): return True


def from_model(model):
    """Turn the verifier's counter-model of a parse obligation (arg_* constants) into a replayable input."""
    names = {'numberinstances': 'numinst', 'minpreflistlength': 'pmin', 'maxpreflistlength': 'pmax', 'ties1': 't1', 'ties2': 't2',
             'lowerquotas': 'lq', 'upperquotas': 'uq', 'lecturerlowerquotas': 'llq', 'lecturerupperquotas': 'luq', 'lecturertargets': 'lt'}
    a = {}
    for k, v in model.items():
        if not k.startswith('arg_'): continue
        d = k[4:]; d = names.get(d, d)
        if v in ('none', 'False'): continue
        if v == 'True': a[d] = True; continue
        v = v.replace('some(', '').rstrip(')')
        try: a[d] = int(v)
        except ValueError:
            try: a[d] = float(eval(v.replace('?', ''), {}))
            except Exception: continue
    a.setdefault('numinst', 1)
    mp = model.get('__mode__', {}).get('matchingproblem') if isinstance(model.get('__mode__'), dict) else None
    if mp is None: return None
    return 'gen_options_parse', dict(mp=mp, args=a, seed=1)


def run_case(kind, inp):
    mp, a = inp['mp'], inp['args']
    r = genutil.run_generator(to_argv(mp, a), inp['seed'])
    exp = legal(mp, a)
    if exp:
        if r['status'] != 'ok':
            return dict(expected='accepted (legal argument set), %d files written' % a['numinst'], observed='%s %s' % (r['status'], r['error']),
                        function='Instance_options_parser.parse', what='legal-rejected')
        want = sorted('%d.txt' % i for i in range(a['numinst']))
        if sorted(r['files']) != want:
            return dict(expected=want, observed=sorted(r['files']), function='generate_instances', what='files')
        return None
    if r['status'] == 'raise':
        return dict(expected='usage error (exit code 2)', observed=r['error'], function='Instance_options_parser.parse', what='illegal-raises')
    if r['status'] == 'ok':
        return dict(expected='usage error (exit code 2)', observed='accepted; files %r' % sorted(r['files']), function='Instance_options_parser.parse', what='illegal-accepted')
    if r['status'] != 'exit2':
        return dict(expected='exit code 2', observed=r['status'], function='Instance_options_parser.parse', what='exit-code')
    if r['created'] or r['files']:
        return dict(expected='nothing written before the usage error', observed='output directory exists', function='Generator.__init__', what='written-before-reject')
    return None
