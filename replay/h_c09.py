"""C09 bounded stand-in: generator -> solver pipeline on small generated instances, all four problem types."""
import os, tempfile
import genutil, oracles as O, solverutil as S, lpcommon as LP
from matchingproblems.solver import fileIO, enums

RULE = ('seeded random accepted generator arguments (ha / sm / hr / spa, n <= 4 agents per side so that the feasible set can be enumerated, '
        'ties 0 / 0.4 / 1, lower quotas, lecturer capacities below the number of lecturers i.e. zero-capacity lecturers); each generated file is '
        'loaded with -na 2 / 3 and -twopl as generated, the loaded model is compared with an independent reading of the file, then solved in '
        'LP mode (random admissible options, -stab when two-sided) and brute-force mode: valid matching or correct infeasibility; '
        'non-trivial = every run')


def cases(rng, tier):
    for t in range(80 if tier == 'quick' else 1500):
        mp = rng.choice(['ha', 'sm', 'hr', 'spa'])
        n1 = rng.randint(1, 4); n2 = n1 if mp == 'sm' else rng.randint(1, 3); n3 = rng.randint(1, 4)
        pmax = rng.randint(1, n2); pmin = rng.randint(1, pmax)
        a = ['-numinst', '1', '-mp', mp, '-n1', str(n1), '-pmin', str(pmin), '-pmax', str(pmax), '-t1', str(rng.choice([0.0, 0.4, 1.0]))]
        two = mp in ('sm', 'hr') or (mp == 'spa' and rng.random() < 0.6)
        if mp != 'sm': a += ['-n2', str(n2), '-uq', str(rng.randint(n2, n2 + 3)), '-lq', str(rng.randint(0, 1))]
        if two: a += ['-twopl', '-t2', str(rng.choice([0.0, 0.4, 1.0]))]
        if mp == 'spa':
            luq = rng.randint(1, 5); lt = rng.randint(0, luq)
            a += ['-n3', str(n3), '-luq', str(luq)]
            if rng.random() < 0.7: a += ['-lt', str(lt), '-llq', str(rng.randint(0, min(lt, 1)))]      # both are optional (defaults 0)
        crits = LP.rand_case(rng, ncrit=(0, 2))['crits']
        yield 'pipeline', dict(argv=a, mp=mp, two=two, seed=rng.randint(0, 10 ** 6), crits=crits, pc=rng.random() < 0.3, stab=two and rng.random() < 0.5)


def nontrivial(kind, inp): return True


def to_instance(I, spa, two):
    nS, nP = I['n1'], I['n2']
    J = dict(na=3 if spa else 2, nS=nS, nP=nP, twopl=two, rows=[])
    def tie_flags(groups):
        out = []
        for g in groups: out += [1] * (len(g) - 1) + [0]
        return out
    J['rows'] = [[f['vals'], tie_flags(f['groups'])] for f in I['first']]
    J['plq'] = [s['lq'] for s in I['second']]; J['puq'] = [s['uq'] for s in I['second']]
    if spa:
        J['nL'] = I['n3']; J['lect'] = [s['lect'] for s in I['second']]
        J['llq'] = [l['lq'] for l in I['lect']]; J['tgt'] = [l['tgt'] for l in I['lect']]; J['luq'] = [l['uq'] for l in I['lect']]
        J['llists'] = [[l['vals'], tie_flags(l['groups'])] for l in I['lect']]
    else:
        J['nL'] = nP; J['lect'] = list(range(1, nP + 1)); J['llq'] = list(J['plq']); J['tgt'] = list(J['puq']); J['luq'] = list(J['puq'])
        J['llists'] = [[s['vals'], tie_flags(s['groups'])] for s in I['second']]
    return J


def run_case(kind, inp):
    r = genutil.run_generator(inp['argv'], inp['seed'])
    if r['status'] != 'ok': return None            # acceptance is C15's obligation
    spa = inp['mp'] == 'spa'; two = inp['two']
    text = r['files']['0.txt']
    try: I = to_instance(genutil.parse_instance(text, spa), spa, two)
    except Exception as ex: return dict(expected='a well-formed file', observed='%s in %r' % (ex, text[:150]), function='create_instance', what='format')
    fd, path = tempfile.mkstemp(suffix='.txt'); os.write(fd, text.encode()); os.close(fd)
    try:
        io = {enums.Instance_options.NUMAGENTS: I['na'], enums.Instance_options.TWOPL: two, enums.Instance_options.PC: False}
        try: m = fileIO.import_model(path, io)
        except Exception as ex: return dict(expected='the generated file loads', observed='raised %s: %s' % (type(ex).__name__, ex), function='_import_from_file', what='load')
    finally: os.unlink(path)
    P = O.pairs(I)
    got = [(p.studentID, p.projectID, p.rank_student, p.lecturerID, getattr(p, 'rank_lecturer', None)) for row in m.pairs for p in row]
    if got != [(q['s'], q['p'], q['rs'], q['k'], q['rl']) for q in P]:
        return dict(expected='the reading of the file agrees with its content', observed=str(got)[:200], function='_import_from_file', what='reading')
    if (list(m.proj_lower_quotas), list(m.proj_upper_quotas), list(m.lec_lower_quotas), list(m.lec_targets), list(m.lec_upper_quotas)) != (I['plq'], I['puq'], I['llq'], I['tgt'], I['luq']):
        return dict(expected='quotas as written', observed='different', function='_import_from_file', what='quotas')
    # the criteria were drawn for another instance: keep the generous cut-off inside its admissible range 1..max rank of THIS instance
    R = max(O.maxrank(I), 1)
    crits = [[c, pos, ([min(ex[0], R)] if c == 'gen' and ex else ex)] for c, pos, ex in inp['crits']]
    case = dict(instance=I, crits=crits, pc=inp['pc'], stab=inp['stab'])
    bad = LP.run_and_check(case, {'valid', 'status', 'stable', 'lex'})
    if bad: bad['what'] = 'lp-' + bad['what']; return bad
    rb = S.run_solver(I, ['-bf'] + (['-pc'] if inp['pc'] else []))
    if rb['status'] != 'ok': return dict(expected='brute-force result', observed='%s %s' % (rb['status'], rb['error']), function='Brute_force_solver.run', what='bf-raise')
    F = O.feasible_set(I, inp['pc'], False)
    if ('Infeasible' in rb['text']) != (not F): return dict(expected='Infeasible iff no valid matching (%d valid)' % len(F), observed=rb['text'][-80:], function='Brute_force_solver.run', what='bf-verdict')
    return None
