"""C12 bounded stand-in: the two inversion functions on random small inputs and whole two-sided generator runs."""
import random as _r
import numpy as np
from matchingproblems.generator.generator_shared import create_pref_lists_from_other_lists
from matchingproblems.generator.generator_spa import Generator_spa
import genutil

RULE = ('seeded random: (a) create_pref_lists_from_other_lists on n1<=5 duplicate-free lists over n2<=5; (b) create_student_lec_lists '
        'on <=5 students, <=6 projects, <=4 lecturers (incl. lecturers nobody ranks, several projects of one lecturer); '
        '(c) whole generator runs sm/hr/spa -twopl with n<=6; non-trivial = some list has >= 2 entries')


def cases(rng, tier):
    N = 400 if tier == 'quick' else 6000
    for i in range(N):
        c = i % 3
        if c == 0:
            n1 = rng.randint(1, 5); n2 = rng.randint(1, 5)
            yield 'invert', dict(lists=[rng.sample(range(1, n2 + 1), rng.randint(0, n2)) for _ in range(n1)], n2=n2, seed=rng.randint(0, 10 ** 6))
        elif c == 1:
            ns = rng.randint(1, 5); npj = rng.randint(1, 6); nl = rng.randint(1, 4)
            yield 'student_lec', dict(prefs=[rng.sample(range(1, npj + 1), rng.randint(0, npj)) for _ in range(ns)],
                                      lect=sorted(rng.randint(1, nl) for _ in range(npj)), n3=nl)
        else:
            mp = rng.choice(['sm', 'hr', 'spa'])
            n1 = rng.randint(1, 6); n2 = rng.randint(1, 6); n3 = rng.randint(1, 5)
            if mp == 'sm': n2 = n1
            pmax = rng.randint(1, n2); pmin = rng.randint(1, pmax)
            a = ['-numinst', '1', '-mp', mp, '-n1', str(n1), '-pmin', str(pmin), '-pmax', str(pmax), '-twopl',
                 '-t1', str(rng.choice([0, 0.3, 1])), '-t2', str(rng.choice([0, 0.5, 1]))]
            if mp != 'sm': a += ['-n2', str(n2), '-uq', str(n2 + rng.randint(0, 3))]
            if mp == 'spa': a += ['-n3', str(n3), '-luq', str(max(n3, rng.randint(1, 8)))]
            yield 'generator', dict(argv=a, seed=rng.randint(0, 10 ** 6), mp=mp)


def nontrivial(kind, inp):
    if kind == 'invert': return any(len(x) >= 2 for x in inp['lists'])
    if kind == 'student_lec': return any(len(x) >= 2 for x in inp['prefs'])
    return True


def check_inverse(first, second, what, fn):
    """second[h] must list r+1 exactly once iff first[r] contains h+1; nothing else."""
    for h, lst in enumerate(second):
        exp = sorted(r + 1 for r, f in enumerate(first) if (h + 1) in f)
        if sorted(lst) != exp:
            return dict(expected='%s %d lists exactly %r' % (what, h + 1, exp), observed=list(map(int, lst)), function=fn, what='inverse')
    return None


def run_case(kind, inp):
    if kind == 'invert':
        _r.seed(inp['seed']); np.random.seed(inp['seed'])
        try: l2, t2 = create_pref_lists_from_other_lists([list(x) for x in inp['lists']], inp['n2'], 0.5)
        except Exception as ex: return dict(expected='lists', observed='raised %r' % ex, function='create_pref_lists_from_other_lists', what='raise')
        if len(l2) != inp['n2']: return dict(expected='%d lists' % inp['n2'], observed=len(l2), function='create_pref_lists_from_other_lists', what='count')
        return check_inverse(inp['lists'], l2, 'second-side agent', 'create_pref_lists_from_other_lists')
    if kind == 'student_lec':
        try: sl = Generator_spa().create_student_lec_lists([list(x) for x in inp['prefs']], list(inp['lect']), inp['n3'])
        except Exception as ex: return dict(expected='lists', observed='raised %r' % ex, function='create_student_lec_lists', what='raise')
        for s, lst in enumerate(sl):
            exp = sorted({inp['lect'][p - 1] for p in inp['prefs'][s]})
            if list(lst) != exp: return dict(expected='student %d: lecturers %r' % (s + 1, exp), observed=list(lst), function='create_student_lec_lists', what='lecturers')
        return None
    r = genutil.run_generator(inp['argv'], inp['seed'])
    if r['status'] != 'ok': return None      # whether an argument set is accepted is C15's obligation, not C12's
    for name, text in r['files'].items():
        try: I = genutil.parse_instance(text, inp['mp'] == 'spa')
        except Exception as ex: return dict(expected='well-formed file', observed='%r in %r' % (ex, text[:200]), function='create_instance', what='format')
        first = [f['vals'] for f in I['first']]
        if inp['mp'] == 'spa':
            lect = [s['lect'] for s in I['second']]
            stl = [sorted({lect[p - 1] for p in f}) for f in first]
            bad = check_inverse(stl, [l['vals'] for l in I['lect']], 'lecturer', 'Generator_spa.generate_instances')
        else:
            bad = check_inverse(first, [s['vals'] for s in I['second']], 'second-side agent', 'Generator_ha_sm_hr.generate_instances')
        if bad: return bad
    return None
