"""C06 bounded stand-in: the real check_stability on every upper-quota-respecting assignment of small two-sided instances."""
import random
import oracles as O

RULE = ('seeded random two-sided instances (2- and 3-agent, <= 3 students, <= 3 projects, <= 3 lecturers, ties, zero capacities, '
        'lecturers with no assignee); for each, EVERY assignment of students to listed projects that respects the upper quotas; '
        'real Model.check_stability vs. the executable SPA-STL definition; non-trivial = at least one student assigned')


def cases(rng, tier):
    n = 60 if tier == 'quick' else 1500
    for t in range(n):
        na = rng.choice([2, 3])
        I = O.gen_instance(rng, rng.randint(1, 3), rng.randint(1, 3), rng.randint(1, 3), na=na, twopl=True, zero=(t % 2 == 0), maxq=2)
        for M in O.matchings(I):
            if O.upper_ok(I, M):
                yield 'checker_call', dict(instance=I, matching=[(q['p'] if q else 0) for q in M])


def nontrivial(kind, inp): return any(inp['matching'])


def run_case(kind, inp):
    I = inp['instance']; M = O.from_projects(I, inp['matching'])
    exp = O.stable(I, M)
    model = O.load_model(I)
    try:
        got = model.check_stability(O.model_assignment(model, M))
    except Exception as ex:
        return dict(expected=exp, observed='raised %s: %s' % (type(ex).__name__, ex), function='Model.check_stability', what='raise')
    if got is not exp:
        return dict(expected=exp, observed=got, function='Model.check_stability', what='verdict')
    return None
