"""Shared LP harness: random instances + option sets, real Solver (real CBC) vs exhaustive enumeration with the executable spec."""
import oracles as O, solverutil as S

CRIT = ['maxsize', 'minsize', 'gen', 'gre', 'mincost', 'minsqcost', 'lmb', 'lsb', 'mincostlsb']


def measure(I, M, c, ex):
    """Value to MINIMISE (tuples compare lexicographically) for criterion c with extras ex on matching M."""
    R = O.maxrank(I); pr = O.profile(I, M)
    if c == 'maxsize': return -O.size(M)
    if c == 'minsize': return O.size(M)
    if c == 'gen':
        cut = ex[0] if ex else 1
        return tuple(pr[r - 1] for r in range(R, max(0, cut - 1), -1))
    if c == 'gre':
        cut = ex[0] if ex else R
        return tuple(-pr[r - 1] for r in range(1, min(cut + 1, R + 1)))
    if c == 'mincost':
        a = ex[0] if len(ex) > 0 else 1; b = ex[1] if len(ex) > 1 else 0
        return a * O.costS(M) + b * O.costL(M)
    if c == 'minsqcost':
        a = ex[0] if len(ex) > 0 else 1; b = ex[1] if len(ex) > 1 else 0
        return a * O.sqS(M) + b * O.sqL(M)
    if c == 'lmb': return max(O.devs(I, M))
    if c == 'lsb': return sum(O.devs(I, M))
    if c == 'mincostlsb':
        a = ex[0] if len(ex) > 0 else 1; b = ex[1] if len(ex) > 1 else 1
        return a * O.costS(M) + b * sum(O.devs(I, M))
    raise ValueError(c)


def flags_of(crits, pc, stab):
    f = []
    for c, pos, ex in crits: f += ['-' + c, str(pos)] + [str(x) for x in ex]
    if pc: f.append('-pc')
    if stab: f.append('-stab')
    return f


def stress_case(rng):
    """Objective-bound stress: many students forced onto few projects / lecturers (ranks on lecturer lists reach the number
    of students; total load deviation reaches the sum of the lecturer capacities)."""
    nS = rng.randint(3, 5); nP = rng.randint(1, 2); nL = 1 if rng.random() < 0.6 else rng.randint(1, 3)
    I = dict(na=3, nS=nS, nP=nP, nL=nL, twopl=True, lect=[rng.randint(1, nL) for _ in range(nP)])
    I['rows'] = [[rng.sample(range(1, nP + 1), nP), [0] * nP] for _ in range(nS)]
    I['puq'] = [nS] * nP; I['plq'] = [0] * nP
    I['luq'] = [nS + rng.randint(0, 2) for _ in range(nL)]; I['tgt'] = [rng.randint(0, u) for u in I['luq']]; I['llq'] = [0] * nL
    used = set(I['lect'])
    if rng.random() < 0.7:
        k = rng.choice(sorted(used)); I['llq'][k - 1] = min(I['luq'][k - 1], sum(1 for _ in range(nS)))
        if len(used) > 1: I['llq'][k - 1] = 0
        else: I['llq'][k - 1] = nS; I['tgt'][k - 1] = max(I['tgt'][k - 1], nS) if rng.random() < 0.5 else I['tgt'][k - 1]; I['tgt'][k - 1] = min(I['tgt'][k - 1], I['luq'][k - 1]); I['llq'][k - 1] = min(nS, I['tgt'][k - 1]) if I['tgt'][k - 1] >= nS else 0
    ll = []
    for k in range(1, nL + 1):
        st = [i + 1 for i, (projs, _) in enumerate(I['rows']) if any(I['lect'][p - 1] == k for p in projs)]
        rng.shuffle(st); ll.append([st, [0] * len(st)])
    I['llists'] = ll
    c = rng.choice(['mincost', 'minsqcost', 'mincostlsb', 'lsb', 'lmb'])
    ex = [rng.randint(1, 2), rng.randint(1, 3)] if c in ('mincost', 'minsqcost', 'mincostlsb') else []
    crits = [[c, 1, ex]]
    if rng.random() < 0.5: crits.append(['maxsize', 2, []])
    return dict(instance=I, crits=crits, pc=False, stab=False)


def rand_case(rng, ncrit=(0, 3), stab=None, small=False, zero=None):
    if stab is None and ncrit[1] >= 1 and rng.random() < 0.2: return stress_case(rng)
    na = rng.choice([2, 3]); two = rng.random() < 0.7
    if stab is None: stab = two and rng.random() < 0.35
    if stab: two = True
    I = O.gen_instance(rng, rng.randint(1, 3 if small else 4), rng.randint(1, 3), rng.randint(1, 3), na=na, twopl=two,
                       zero=(rng.random() < 0.3 if zero is None else zero), maxq=2, maxlen=3, unranked=(rng.random() < 0.12))
    k = rng.randint(*ncrit); names = rng.sample(CRIT, k); poss = sorted(rng.sample(range(1, 10), k)); crits = []
    R = max(O.maxrank(I), 1)
    for c, pos in zip(names, poss):
        ex = []
        if c == 'gen' and rng.random() < 0.5: ex = [rng.randint(1, R)]
        if c == 'gre' and rng.random() < 0.5: ex = [rng.randint(1, R + 1)]
        if c in ('mincost', 'minsqcost', 'mincostlsb') and rng.random() < 0.6: ex = [rng.randint(0, 3) for _ in range(rng.randint(1, 2))]
        crits.append([c, pos, ex])
    rng.shuffle(crits)
    return dict(instance=I, crits=crits, pc=rng.random() < 0.3, stab=stab)


def printed_matching(I, text):
    line = S.field(text, 'matching')
    if line is None: return None
    return [int(x) for x in line.split()]


def run_and_check(inp, want):
    """want: subset of {'valid','status','optimal','lex','stable'}.  Returns None or a failure dict."""
    I = inp['instance']; crits = inp['crits']; pc = inp['pc']; stab = inp['stab']
    r = S.run_solver(I, flags_of(crits, pc, stab), getter=inp.get('getter', 'get_results'))
    fn = 'LP_Solver.run'
    if r['status'] != 'ok':
        return dict(expected='a result (no exception)', observed='%s %s' % (r['status'], r['error']), function=fn, what='raise')
    text = r['text']; status = S.field(text, 'pulp_status')
    F = O.feasible_set(I, pc, stab)
    if 'status' in want:
        exp = 'Optimal' if F else 'Infeasible'
        if status != exp:
            return dict(expected='pulp_status: ' + exp + ' (%d feasible matchings)' % len(F), observed='pulp_status: %s' % status, function=fn, what='status-' + '+'.join(sorted(c for c, _, _ in crits)))
    if status != 'Optimal':
        if printed_matching(I, text) is not None:
            return dict(expected='no matching when status is ' + str(status), observed=text[-200:], function='Model.get_results', what='matching-without-optimal')
        return None
    pm = printed_matching(I, text)
    if pm is None or len(pm) != I['nS']:
        return dict(expected='a matching line with %d entries' % I['nS'], observed=str(pm), function='Model.get_results', what='matching-line')
    M = O.from_projects(I, pm)
    if 'valid' in want and (M is None or not O.valid(I, M, pc) or any(sum(1 for q in M if q and q['s'] == i + 1) > 1 for i in range(I['nS']))):
        return dict(expected='a valid matching', observed='matching %r' % pm, function='LP_Solver.upper_lower_constraints', what='invalid')
    if M is None: return None
    if 'stable' in want and stab and not O.stable(I, M):
        return dict(expected='a stable matching', observed='matching %r has a blocking pair' % pm, function='LP_Solver.stability_constraints', what='unstable')
    if ('optimal' in want or 'lex' in want) and crits and F:
        order = sorted(crits, key=lambda c: c[1]); cur = F
        for c, pos, ex in order:
            best = min(measure(I, X, c, ex) for X in cur)
            mine = measure(I, M, c, ex)
            if mine != best:
                return dict(expected='criterion -%s %s optimal value %r over %d matchings' % (c, ex, best, len(cur)),
                            observed='matching %r has value %r' % (pm, mine), function='LP_Solver.optimisation_' + {'gen': 'generous', 'gre': 'greedy', 'lmb': 'loadmaxbal', 'lsb': 'loadsumbal'}.get(c, c), what='suboptimal-' + c)
            cur = [X for X in cur if measure(I, X, c, ex) == best]
    return None
