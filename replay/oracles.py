"""Executable specification (DESIGN section 5), independent of the code under verification.
An instance is a JSON-able dict:
  na (2|3), nS, nP, nL, rows [[projects],[tie flags]] per student, plq, puq, lect (project -> lecturer, 1-based),
  llq, tgt, luq, llists [[students],[tie flags]] per lecturer, twopl
For na == 2 every project is offered by its own lecturer (lect[j] = j+1, llq = plq, tgt = luq = puq)."""
import itertools, os, tempfile, random


# ------------------------------------------------------------------ instances
def gen_instance(rng, nS, nP, nL, na=3, twopl=True, ties=True, maxlen=3, maxq=2, lq=True, zero=False, unranked=False):
    """unranked: one project that nobody ranks keeps a lower quota of 1 (a legal file; infeasible unless the project may close)."""
    I = dict(na=na, nS=nS, nP=nP, twopl=twopl)
    skip = rng.randint(1, nP) if (unranked and nP >= 2) else None
    if na == 2: nL = nP
    I['nL'] = nL
    I['lect'] = list(range(1, nP + 1)) if na == 2 else [rng.randint(1, nL) for _ in range(nP)]
    rows = []
    for i in range(nS):
        cand = [x for x in range(1, nP + 1) if x != skip]
        L = rng.randint(0 if rng.random() < 0.1 else 1, min(maxlen, len(cand)))
        projs = rng.sample(cand, L)
        tie = [int(ties and rng.random() < 0.4) for _ in range(L)]
        rows.append([projs, tie])
    I['rows'] = rows
    lo = 0 if zero else 1
    I['puq'] = [rng.randint(lo, maxq) for _ in range(nP)]
    I['plq'] = [(rng.randint(0, 1) if (lq and rng.random() < 0.3) else 0) for _ in range(nP)]
    I['plq'] = [min(a, b) for a, b in zip(I['plq'], I['puq'])]
    if skip is not None: I['puq'][skip - 1] = max(1, I['puq'][skip - 1]); I['plq'][skip - 1] = 1
    if na == 2:
        I['luq'] = list(I['puq']); I['tgt'] = list(I['puq']); I['llq'] = list(I['plq'])
    else:
        I['luq'] = [rng.randint(lo, maxq + 1) for _ in range(nL)]
        I['tgt'] = [rng.randint(0, u) for u in I['luq']]
        I['llq'] = [min(t, rng.randint(0, 1) if (lq and rng.random() < 0.2) else 0) for t in I['tgt']]
    ll = []
    for k in range(1, nL + 1):
        st = [i + 1 for i, (projs, _) in enumerate(rows) if any(I['lect'][p - 1] == k for p in projs)]
        rng.shuffle(st)
        ll.append([st, [int(ties and rng.random() < 0.4) for _ in st]])
    I['llists'] = ll
    return I


def fmt(lst, tie):
    out = []; it = False
    for i, x in enumerate(lst):
        if not it and tie[i] and i < len(lst) - 1: out.append('(' + str(x)); it = True
        elif it and not tie[i]: out.append(str(x) + ')'); it = False
        elif i == len(lst) - 1 and it: out.append(str(x) + ')')
        else: out.append(str(x))
    return ' '.join(out)


def ranks(lst, tie):
    r = []; cur = 1
    for i in range(len(lst)):
        r.append(cur)
        if not (tie[i] and i < len(lst) - 1): cur += 1
    return r


def to_text(I, trailer=True):
    if I['na'] == 3:
        s = '%d %d %d\n' % (I['nS'], I['nP'], I['nL'])
        for i, (p, t) in enumerate(I['rows']): s += '%d: %s\n' % (i + 1, fmt(p, t))
        for j in range(I['nP']): s += '%d: %d: %d: %d\n' % (j + 1, I['plq'][j], I['puq'][j], I['lect'][j])
        for k in range(I['nL']):
            s += '%d: %d: %d: %d: %s\n' % (k + 1, I['llq'][k], I['tgt'][k], I['luq'][k], fmt(*I['llists'][k]) if I['twopl'] else '')
    else:
        s = '%d %d\n' % (I['nS'], I['nP'])
        for i, (p, t) in enumerate(I['rows']): s += '%d: %s\n' % (i + 1, fmt(p, t))
        for j in range(I['nP']):
            s += '%d: %d: %d: %s\n' % (j + 1, I['plq'][j], I['puq'][j], fmt(*I['llists'][j]) if I['twopl'] else '')
    if trailer: s += '\ninstance generation parameters\nnumber_of_agents_type_1: %d\n' % I['nS']
    return s


def pairs(I):
    P = []
    for i, (projs, tie) in enumerate(I['rows']):
        rs = ranks(projs, tie)
        for c, p in enumerate(projs):
            k = I['lect'][p - 1]; rl = None
            if I['twopl']:
                st, t = I['llists'][k - 1]; rl = ranks(st, t)[st.index(i + 1)]
            P.append(dict(s=i + 1, p=p, k=k, rs=rs[c], rl=rl))
    return P


# ------------------------------------------------------------------ matchings: tuple M, M[i] = pair dict or None
def matchings(I):
    P = pairs(I)
    opts = [[None] + [q for q in P if q['s'] == i + 1] for i in range(I['nS'])]
    return itertools.product(*opts)


def from_projects(I, projs):
    """projs[i] = project number of student i+1 or 0 -> matching tuple (None if the project is not on the list)."""
    P = pairs(I); out = []
    for i, p in enumerate(projs):
        if p == 0: out.append(None); continue
        c = [q for q in P if q['s'] == i + 1 and q['p'] == p]
        if not c: return None
        out.append(c[0])
    return tuple(out)


def loadP(M, j): return sum(1 for q in M if q and q['p'] == j)
def loadL(M, k): return sum(1 for q in M if q and q['k'] == k)


def valid(I, M, pc):
    for j in range(1, I['nP'] + 1):
        n = loadP(M, j)
        if pc and n == 0: continue
        if not (I['plq'][j - 1] <= n <= I['puq'][j - 1]): return False
    for k in range(1, I['nL'] + 1):
        if not (I['llq'][k - 1] <= loadL(M, k) <= I['luq'][k - 1]): return False
    return True


def upper_ok(I, M):
    return all(loadP(M, j) <= I['puq'][j - 1] for j in range(1, I['nP'] + 1)) and all(loadL(M, k) <= I['luq'][k - 1] for k in range(1, I['nL'] + 1))


def blocking(I, M, q):
    i = q['s'] - 1; a = M[i]
    if not (a is None or q['rs'] < a['rs']): return False
    j, k = q['p'], q['k']
    Pu = loadP(M, j) < I['puq'][j - 1]; Lu = loadL(M, k) < I['luq'][k - 1]
    if Pu and Lu: return True
    if Pu and not Lu and ((a is not None and a['k'] == k) or any(x and x['k'] == k and x['rl'] > q['rl'] for x in M)): return True
    if not Pu and any(x and x['p'] == j and x['rl'] > q['rl'] for x in M): return True
    return False


def stable(I, M): return not any(blocking(I, M, q) for q in pairs(I))
def maxrank(I): return max([q['rs'] for q in pairs(I)] or [0])


def profile(I, M):
    pr = [0] * maxrank(I)
    for q in M:
        if q: pr[q['rs'] - 1] += 1
    return pr


def size(M): return sum(1 for q in M if q)
def costS(M): return sum(q['rs'] for q in M if q)
def costL(M): return sum((q['rl'] or 0) for q in M if q)
def sqS(M): return sum(q['rs'] ** 2 for q in M if q)
def sqL(M): return sum((q['rl'] or 0) ** 2 for q in M if q)
def degree(M): return max([q['rs'] for q in M if q] or [0])
def devs(I, M): return [abs(loadL(M, k) - I['tgt'][k - 1]) for k in range(1, I['nL'] + 1)]


def feasible_set(I, pc, stab):
    return [M for M in matchings(I) if valid(I, M, pc) and (not stab or stable(I, M))]


# ------------------------------------------------------------------ running the real code
def write_instance(I, trailer=True):
    fd, path = tempfile.mkstemp(prefix='vinst', suffix='.txt')
    with os.fdopen(fd, 'w') as f: f.write(to_text(I, trailer))
    return path


def load_model(I):
    from matchingproblems.solver import fileIO, enums
    path = write_instance(I)
    try:
        io = {enums.Instance_options.NUMAGENTS: I['na'], enums.Instance_options.TWOPL: I['twopl'], enums.Instance_options.PC: False}
        return fileIO.import_model(path, io)
    finally:
        os.unlink(path)


def model_assignment(model, M):
    """Real Pair objects (or None) of the loaded model for matching tuple M."""
    out = []
    for i, q in enumerate(M):
        if q is None: out.append(None); continue
        out.append([p for p in model.pairs[i] if p.projectID == q['p']][0])
    return out
