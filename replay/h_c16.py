"""C16 bounded stand-in: the real Options_parser (and Solver construction order) on enumerated / random option sets."""
import io, contextlib, itertools, os, tempfile
from matchingproblems.solver.options_parser import Options_parser
from matchingproblems.solver.enums import *

RULE = ('all assignments of positions in {absent, 0, 1, 2, 3, 9, 10} to pairs and triples of criteria plus seeded random '
        'assignments over all nine (positions -1..11, extras vectors, shuffled flag order, -stab/-twopl combinations); '
        'oracle: refused iff a position is outside 1..9, two coincide, or -stab without -twopl; otherwise the list is the '
        'requested criteria sorted by position with their extras; non-trivial = at least two criteria requested')
FLAGS = ['maxsize', 'minsize', 'gen', 'gre', 'mincost', 'minsqcost', 'lmb', 'lsb', 'mincostlsb']
ENUM = dict(zip(FLAGS, [Optimisation_options.MAXSIZE, Optimisation_options.MINSIZE, Optimisation_options.GENEROUS,
                        Optimisation_options.GREEDY, Optimisation_options.MINCOST, Optimisation_options.MINSQCOST,
                        Optimisation_options.LOADMAXBAL, Optimisation_options.LOADSUMBAL, Optimisation_options.MINCOSTLSB]))
MULTI = {'gen', 'gre', 'mincost', 'minsqcost', 'mincostlsb'}


def cases(rng, tier):
    vals = [None, 0, 1, 2, 3, 9, 10]
    for a, b in itertools.combinations(FLAGS, 2):
        for pa in vals:
            for pb in vals:
                yield 'options_parse', dict(crit=[[a, pa, []], [b, pb, [2] if b in MULTI else []]], stab=False, twopl=False, order=0)
    n = 300 if tier == 'quick' else 20000
    for _ in range(n):
        k = rng.randint(0, 9); chosen = rng.sample(FLAGS, k); crit = []
        style = rng.random()
        perm = rng.sample(range(1, 10), 9)
        for i, f in enumerate(chosen):
            pos = perm[i] if style < 0.6 else rng.randint(-1, 11)
            ex = [rng.randint(0, 4) for _ in range(rng.randint(0, 2))] if f in MULTI else []
            crit.append([f, pos, ex])
        yield 'options_parse', dict(crit=crit, stab=rng.random() < 0.3, twopl=rng.random() < 0.6, order=rng.randint(0, 10 ** 6))


def nontrivial(kind, inp): return sum(1 for c in inp['crit'] if c[1] is not None) >= 2


def argv_of(inp):
    import random
    parts = []
    for f, pos, ex in inp['crit']:
        if pos is None: continue
        parts.append(['-' + f, str(pos)] + [str(x) for x in ex])
    if inp['stab']: parts.append(['-stab'])
    if inp['twopl']: parts.append(['-twopl'])
    parts.append(['-f', 'nonexistent-file.txt']); parts.append(['-na', '3'])
    random.Random(inp['order']).shuffle(parts)
    return [x for p in parts for x in p]


def run_case(kind, inp):
    req = [(f, pos, ex) for f, pos, ex in inp['crit'] if pos is not None]
    pos = [p for _, p, _ in req]
    admissible = all(1 <= p <= 9 for p in pos) and len(set(pos)) == len(pos) and (not inp['stab'] or inp['twopl'])
    op = Options_parser()
    status = 'ok'
    try:
        with contextlib.redirect_stderr(io.StringIO()): op.parse(argv_of(inp))
    except SystemExit as e: status = 'exit%s' % e.code
    except Exception as e: status = 'raise %s: %s' % (type(e).__name__, e)
    if not admissible:
        if status != 'exit2': return dict(expected='refused with a usage error (exit 2)', observed=status, function='Options_parser.parse', what='not-refused')
        return None
    if status != 'ok': return dict(expected='accepted', observed=status, function='Options_parser.parse', what='refused-admissible')
    exp = [(ENUM[f], (ex if f in MULTI else None)) for f, p, ex in sorted(req, key=lambda c: c[1])]
    got = [(o, (list(a) if a is not None else None)) for o, a in op.optimisation_options]
    if got != exp:
        return dict(expected=[(str(o), a) for o, a in exp], observed=[(str(o), a) for o, a in got], function='Options_parser._get_ordered_optimisations', what='order')
    return None
