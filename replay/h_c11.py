"""C11 bounded stand-in: every printed statistic / listing recomputed from the instance and the printed matching line."""
import re
import lpcommon as LP, oracles as O, solverutil as S

RULE = ('seeded random small instances and option sets, real solver, short and long format; size, cost, cost_sq, degree, profile, '
        'max / sum lecturer deviation recomputed from the printed matching line; long format: every student / project / lecturer exactly once '
        'with the implied assignees, occupancy, capacity and target; non-trivial = at least one student assigned')


def cases(rng, tier):
    for _ in range(80 if tier == 'quick' else 2000):
        c = LP.rand_case(rng, ncrit=(0, 2)); c['getter'] = rng.choice(['get_results_short', 'get_results_long']); yield 'solver_run', c
        if _ % 4 == 0:       # wide instances: project / student numbers with two digits (10, 11, 20 ...)
            I = O.gen_instance(rng, rng.randint(2, 4), rng.randint(10, 12), rng.randint(1, 3), na=rng.choice([2, 3]), twopl=False, maxlen=4, maxq=2)
            for row in I['rows']:
                if row[0] and rng.random() < 0.7: row[0][0] = rng.choice([10, 11, 12][:max(1, I['nP'] - 9)]) if row[0][0] not in (10, 11, 12) and not any(x in (10, 11, 12) for x in row[0][1:]) else row[0][0]
            yield 'solver_run', dict(instance=I, crits=[['maxsize', 1, []]], pc=False, stab=False, getter=('get_results_long' if _ % 8 == 0 else 'get_results_short'))


def nontrivial(kind, inp): return True


def run_case(kind, inp):
    I = inp['instance']
    r = S.run_solver(I, LP.flags_of(inp['crits'], inp['pc'], inp['stab']), getter=inp['getter'])
    if r['status'] != 'ok': return dict(expected='results', observed='%s %s' % (r['status'], r['error']), function='Model.get_results', what='raise')
    text = r['text']
    if S.field(text, 'pulp_status') != 'Optimal': return None
    pm = LP.printed_matching(I, text); M = O.from_projects(I, pm)
    if M is None: return dict(expected='projects on the lists', observed=str(pm), function='Model._get_matching_string', what='matching')
    exp = {'size': str(O.size(M)), 'cost': str((O.costS(M), O.costL(M))), 'cost_sq': str((O.sqS(M), O.sqL(M))), 'degree': str(O.degree(M)),
           'profile': '< ' + ''.join('%d ' % x for x in O.profile(I, M)) + '>', 'max_lec_abs_diff': str(max(O.devs(I, M))), 'sum_lec_abs_diff': str(sum(O.devs(I, M)))}
    for k, v in exp.items():
        got = S.field(text, k)
        if got != v: return dict(expected='%s: %s' % (k, v), observed='%s: %s' % (k, got), function='Model._get_' + k, what=k)
    if inp['getter'] == 'get_results_long':
        def section(name, nxt):
            m = re.search(name + r':\n(.*?)(?:\n#|\Z)', text, re.S); return [l for l in (m.group(1) if m else '').split('\n') if l.strip()]
        st = section('Student_assignments', ''); pr = section('Project_assignments', ''); le = section('Lecturer_assignments', '')
        if len(st) != I['nS'] or len(pr) != I['nP'] or len(le) != I['nL']:
            return dict(expected='%d/%d/%d lines' % (I['nS'], I['nP'], I['nL']), observed='%d/%d/%d' % (len(st), len(pr), len(le)), function='Model._get_detailed_student_info', what='listing-length')
        for i, q in enumerate(M):
            e = 's_%d: p_%d (l_%d) ' % (i + 1, q['p'], q['k']) if q else 's_%d no assignment' % (i + 1)
            if st[i].rstrip() != e.rstrip(): return dict(expected=e, observed=st[i], function='Model._get_detailed_student_info', what='student-line')
        for j in range(1, I['nP'] + 1):
            who = ''.join('s_%d ' % q['s'] for q in M if q and q['p'] == j) or 'no assignment '
            e = 'p_%d (l_%d): %s    %d/%d' % (j, I['lect'][j - 1], who, O.loadP(M, j), I['puq'][j - 1])
            if pr[j - 1].rstrip() != e.rstrip(): return dict(expected=e, observed=pr[j - 1], function='Model._get_detailed_project_info', what='project-line')
        for k in range(1, I['nL'] + 1):
            who = ''.join('s_%d (p_%d) ' % (q['s'], q['p']) for q in M if q and q['k'] == k) or 'no assignment '
            e = 'l_%d: %s    %d/%d (%d)' % (k, who, O.loadL(M, k), I['luq'][k - 1], I['tgt'][k - 1])
            if le[k - 1].rstrip() != e.rstrip(): return dict(expected=e, observed=le[k - 1], function='Model._get_detailed_lecturer_info', what='lecturer-line')
    return None
