"""C17 bounded stand-in (floating point is outside the contract): the real function on a grid of (n, skew)."""
import math
import random
import numpy as np
from matchingproblems.generator import generator_shared
from matchingproblems.generator.generator_shared import create_linear_distribution

RULE = ('grid: n in 1..40 (quick) / 1..200 (thorough) x skews {1e-3..1e6, incl. 1, <1, large} + seeded random skews; '
        'checks positivity, sum 1, arithmetic progression, last = skew*first within 1e-9 relative; '
        'non-trivial = n >= 2 and skew != 1')
SKEWS = [1e-3, 0.01, 0.1, 0.25, 0.5, 0.9, 0.999, 1.0, 1.001, 1.5, 2.0, 3.0, 5.0, 10.0, 17.0, 100.0, 1e4, 1e6]


def cases(rng, tier):
    N = 40 if tier == 'quick' else 200
    for n in range(1, N + 1):
        for s in SKEWS: yield 'distribution', dict(n=n, skew=s)
    for _ in range(200 if tier == 'quick' else 5000):
        yield 'distribution', dict(n=rng.randint(1, N), skew=math.exp(rng.uniform(-7, 14)))
    # the weights actually handed to the draws ("used as sampling weights")
    for n in (1, 2, 3, 5, 8):
        for s in SKEWS: yield 'draw_weights', dict(n=n, skew=s)


def nontrivial(kind, inp): return inp['n'] >= 2 and inp['skew'] != 1.0


def run_draws(n, s):
    seen = []; real = np.random.choice
    def rec(a, size=None, replace=True, p=None):
        if replace is False: seen.append(None if p is None else [float(x) for x in p])          # the preference-list draws (the tie draws use replace=True)
        return real(a, size, replace=replace, p=p)
    random.seed(1); np.random.seed(1)
    np.random.choice = rec
    try: generator_shared.create_pref_lists_original(3, n, 1, n, 0.0, s)
    except Exception as ex: return dict(expected='lists', observed='raised %r' % ex, function='create_pref_lists_original', what='raise')
    finally: np.random.choice = real
    for w in seen:
        exp = [1.0] if n == 1 else [(1 + j * (s - 1) / (n - 1)) / (n * (1 + s) / 2) for j in range(n)]
        if w is None or any(abs(a - b) > 1e-9 * max(b, 1e-300) for a, b in zip(w, exp)):
            return dict(expected='every draw uses the linear weights for (n, skew)', observed='p = %r' % (w if w is None else w[:4],), function='create_pref_lists_original', what='draw-weights')
    if not seen: return dict(expected='a weighted draw', observed='no draw with %d weights seen' % n, function='create_pref_lists_original', what='draw-weights')
    return None


def run_case(kind, inp):
    n, s = inp['n'], inp['skew']
    if kind == 'draw_weights': return run_draws(n, s)
    try:
        d = [float(x) for x in create_linear_distribution(n, s)]
    except Exception as ex:
        return dict(expected='weights', observed='raised %r' % ex, function='create_linear_distribution', what='raise')
    tol = 1e-9
    bad = None
    if len(d) != n: bad = 'length %d' % len(d)
    elif any(not (x > 0) for x in d): bad = 'non-positive weight'
    elif abs(sum(d) - 1) > tol: bad = 'sum %r' % sum(d)
    elif n == 1 and abs(d[0] - 1) > tol: bad = 'single weight %r' % d[0]
    elif n >= 2 and abs(d[-1] - s * d[0]) > tol * max(1, s) * max(d[-1], d[0] * s): bad = 'last/first = %r, skew %r' % (d[-1] / d[0], s)
    elif n >= 3:
        step = (d[-1] - d[0]) / (n - 1)
        if any(abs((d[j + 1] - d[j]) - step) > tol * max(abs(step), d[-1]) for j in range(n - 1)): bad = 'not an arithmetic progression'
    # exact specification (proved over the reals): d[j] = (1 + j*(s-1)/(n-1)) / (n*(1+s)/2)
    if bad is None and n >= 2:
        for j in range(n):
            e = (1 + j * (s - 1) / (n - 1)) / (n * (1 + s) / 2)
            if abs(d[j] - e) > tol * max(e, 1e-300): bad = 'weight %d = %r, closed form %r' % (j, d[j], e); break
    if bad: return dict(expected='positive, sum 1, arithmetic progression with last = skew*first', observed=bad,
                        function='create_linear_distribution', what='weights')
    return None
