"""C07 bounded stand-in: brute-force mode on small instances vs. exhaustive optimisation with the executable spec."""
import oracles as O, solverutil as S

RULE = ('seeded random instances, <= 3 students x <= 3 projects x <= 3 lecturers (2- and 3-agent, one- and two-sided, lower quotas, '
        'zero capacities, more ranks than students), with and without -pc; real Solver -bf vs. exhaustive optimum of every printed '
        'statistic; plus a corner family where the greediest matching is not of maximum size; non-trivial = at least two valid matchings')


def cases(rng, tier):
    n = 120 if tier == 'quick' else 4000
    for t in range(n):
        na = rng.choice([2, 3]); two = rng.random() < 0.5
        I = O.gen_instance(rng, rng.randint(1, 3), rng.randint(1, 3), rng.randint(1, 3), na=na, twopl=two, zero=(t % 3 == 0), maxq=2, maxlen=3)
        yield 'bf_run', dict(instance=I, pc=bool(t % 2))
        if t % 10 == 0:
            # corner family: the greediest matching is NOT of maximum size (a one-entry list takes the first choice of a longer list in every
            # maximum matching), so "most greedy over all valid matchings" and "over maximum-size matchings" differ
            nS = 3; perm = rng.sample([1, 2, 3], 3)
            rows = [[[perm[0], perm[1]], [0, 0]], [[perm[0]], [0]], [[perm[1], perm[2]], [0, 0]]]
            order = rng.sample(range(3), 3); rows = [rows[i] for i in order]
            J = dict(na=2, nS=nS, nP=3, nL=3, twopl=False, lect=[1, 2, 3], rows=rows, puq=[1, 1, 1], plq=[0, 0, 0], luq=[1, 1, 1], tgt=[1, 1, 1], llq=[0, 0, 0], llists=[[[], []] for _ in range(3)])
            yield 'bf_run', dict(instance=J, pc=bool(t % 4))


def nontrivial(kind, inp):
    return len(O.feasible_set(inp['instance'], inp['pc'], False)) >= 2


def run_case(kind, inp):
    I = inp['instance']; pc = inp['pc']
    r = S.run_solver(I, ['-bf'] + (['-pc'] if pc else []))
    if r['status'] != 'ok':
        return dict(expected='brute-force results', observed='%s %s' % (r['status'], r['error']), function='Brute_force_solver.run', what='raise')
    text = r['text']; F = O.feasible_set(I, pc, False)
    if not F:
        if 'Infeasible' not in text: return dict(expected='Infeasible', observed=text[-200:], function='Brute_force_solver.get_results', what='infeasible')
        return None
    if 'Infeasible' in text: return dict(expected='statistics (a valid matching exists)', observed='Infeasible', function='Brute_force_solver.run', what='infeasible')
    ms = max(O.size(M) for M in F); top = [M for M in F if O.size(M) == ms]; R = O.maxrank(I)
    exp = {
        'optimal_size': ms,
        'optimal_maxsizemincost': min((O.costS(M), O.costL(M)) for M in top),
        'optimal_maxsizemindegree': min(O.degree(M) for M in top),
        'optimal_maxsizeminsqcost': min((O.sqS(M), O.sqL(M)) for M in top),
        'optimal_generousmaxprofile': min((O.profile(I, M) for M in top), key=lambda p: p[::-1]),
        'optimal_greedymaxprofile': max(O.profile(I, M) for M in top),
        'optimal_greedyprofile': max(O.profile(I, M) for M in F),
        'optimal_max_lec_abs_diff': min(max(O.devs(I, M)) for M in F),
        'optimal_sum_lec_abs_diff': min(sum(O.devs(I, M)) for M in F),
    }
    for k, v in exp.items():
        raw = S.field(text, k)
        if raw is None: return dict(expected='%s: %r' % (k, v), observed='line missing', function='Brute_force_solver.get_results', what=k)
        got = S.parse_profile(raw) if 'profile' in k else (S.parse_tuple(raw) if raw.startswith('(') else int(raw))
        if 'profile' in k and len(got) != R:
            return dict(expected='%s with %d entries' % (k, R), observed=raw, function='Brute_force_solver.run', what=k + '-length')
        if got != v: return dict(expected='%s: %r' % (k, v), observed=raw, function='Brute_force_solver.run', what=k)
    return None
