"""Helpers for harnesses that run the real generator / solver.  Independent (re-)parsers of the text formats."""
import os, sys, tempfile, shutil, random, io, contextlib, re
import numpy as np


def run_generator(argv, seed):
    """Runs matchingproblems.generator.Generator(argv + -o tmp) natively.  Returns dict(status, error, files, listing)."""
    from matchingproblems.generator.generator import Generator
    d = tempfile.mkdtemp(prefix='vgen')
    out = os.path.join(d, 'out')
    random.seed(seed); np.random.seed(seed % (2 ** 32))
    res = dict(status='ok', error=None, files={}, created=False)
    try:
        with contextlib.redirect_stderr(io.StringIO()) as err, contextlib.redirect_stdout(io.StringIO()):
            try:
                Generator(list(argv) + ['-o', out])
            except SystemExit as e:
                res['status'] = 'exit%s' % e.code; res['error'] = err.getvalue()[-300:]
            except Exception as e:
                res['status'] = 'raise'; res['error'] = '%s: %s' % (type(e).__name__, e)
        res['created'] = os.path.exists(out)
        if os.path.isdir(out):
            for f in sorted(os.listdir(out)):
                with open(os.path.join(out, f)) as fh: res['files'][f] = fh.read()
    finally:
        shutil.rmtree(d, ignore_errors=True)
    return res


def parse_pref(text):
    """'4 5 (1 2) 3' -> ([4,5,1,2,3], groups [[4],[5],[1,2],[3]]) or raises ValueError on malformed brackets."""
    vals = []; groups = []; cur = None
    for tok in text.split():
        m = re.fullmatch(r'(\(?)(-?\d+)(\)?)', tok)
        if not m: raise ValueError('bad token %r' % tok)
        o, n, c = m.group(1), int(m.group(2)), m.group(3)
        if o and c: raise ValueError('single-entry tie %r' % tok)
        if o:
            if cur is not None: raise ValueError('nested tie')
            cur = [n]
        elif c:
            if cur is None: raise ValueError('unbalanced )')
            cur.append(n); groups.append(cur); cur = None
        elif cur is not None: cur.append(n)
        else: groups.append([n])
        vals.append(n)
    if cur is not None: raise ValueError('unclosed tie')
    return vals, groups


def parse_instance(text, spa):
    """Independent reading of a generated instance file (layout only; raises ValueError when malformed)."""
    lines = text.split('\n')
    hdr = lines[0].split()
    I = dict(spa=spa)
    if spa:
        if len(hdr) != 3: raise ValueError('header %r' % lines[0])
        n1, n2, n3 = map(int, hdr)
    else:
        if len(hdr) != 2: raise ValueError('header %r' % lines[0])
        n1, n2 = map(int, hdr); n3 = 0
    I.update(n1=n1, n2=n2, n3=n3, first=[], second=[], lect=[])
    k = 1
    for i in range(n1):
        m = re.fullmatch(r'(\d+): ?(.*)', lines[k]); k += 1
        if not m or int(m.group(1)) != i + 1: raise ValueError('first-side line %d: %r' % (i + 1, lines[k - 1]))
        vals, groups = parse_pref(m.group(2))
        I['first'].append(dict(vals=vals, groups=groups))
    for j in range(n2):
        parts = [x.strip() for x in lines[k].split(':')]; k += 1
        if spa:
            if len(parts) != 4 or int(parts[0]) != j + 1: raise ValueError('project line %r' % lines[k - 1])
            I['second'].append(dict(lq=int(parts[1]), uq=int(parts[2]), lect=int(parts[3])))
        else:
            if len(parts) != 4 or int(parts[0]) != j + 1: raise ValueError('second-side line %r' % lines[k - 1])
            vals, groups = parse_pref(parts[3])
            I['second'].append(dict(lq=int(parts[1]), uq=int(parts[2]), vals=vals, groups=groups))
    for l in range(n3):
        parts = [x.strip() for x in lines[k].split(':')]; k += 1
        if len(parts) != 5 or int(parts[0]) != l + 1: raise ValueError('lecturer line %r' % lines[k - 1])
        vals, groups = parse_pref(parts[4])
        I['lect'].append(dict(lq=int(parts[1]), tgt=int(parts[2]), uq=int(parts[3]), vals=vals, groups=groups))
    if lines[k] != '': raise ValueError('missing blank line before the parameter block: %r' % lines[k])
    I['info'] = lines[k + 1:]
    return I
