"""Running the real Solver natively on an oracle instance; parsing its textual results."""
import os, re, io, contextlib
import oracles as O


def run_solver(I, flags, getter='get_results', timeLimit=None, calls=None):
    """Returns dict(status='ok'|'exitN'|'raise', error, text, texts)."""
    from matchingproblems.solver.solver import Solver
    path = O.write_instance(I)
    argv = ['-f', path, '-na', str(I['na'])] + (['-twopl'] if I['twopl'] and '-twopl' not in flags else []) + list(flags)
    res = dict(status='ok', error=None, text=None, texts=[])
    try:
        with contextlib.redirect_stderr(io.StringIO()), contextlib.redirect_stdout(io.StringIO()):
            try:
                s = Solver(argv)
                if calls is None:
                    s.solve(msg=False, timeLimit=timeLimit)
                    res['text'] = getattr(s, getter)()
                else:
                    for c in calls:
                        if c == 'solve': s.solve(msg=False, timeLimit=timeLimit); res['texts'].append(None)
                        else: res['texts'].append(getattr(s, c)())
                res['solver'] = s
            except SystemExit as e:
                res['status'] = 'exit%s' % e.code
            except Exception as e:
                import traceback
                res['status'] = 'raise'; res['error'] = '%s: %s | %s' % (type(e).__name__, e, traceback.format_exc().splitlines()[-3].strip())
    finally:
        os.unlink(path)
    return res


def field(text, label):
    m = re.search(r'^' + re.escape(label) + r': ?(.*)$', text, re.M)
    return m.group(1).strip() if m else None


def parse_profile(s):
    return [int(x) for x in s.replace('<', '').replace('>', '').split()]


def parse_tuple(s):
    return tuple(int(x) for x in s.strip('()').split(','))
