"""C14 bounded stand-in: fault injection at pulp.LpProblem.solve (from outside the repository) on real solver runs."""
import datetime as _dt
import pulp
import lpcommon as LP, oracles as O, solverutil as S
import matchingproblems.solver.solver as solver_mod

RULE = ('seeded random small instances and criteria sequences (0-3 criteria incl. generous / greedy per-rank solves); for every position in the '
        'sequence of underlying solves and every failure kind (Infeasible, Unbounded, Undefined, Not Solved; with a time limit also a '
        'time-limit stop with incumbent = status Optimal but the clock past the limit), transient or persistent, plus pairs of faults; '
        'oracle: no matching / statistics in the results, first non-optimal status or Timeout shown; non-trivial = a fault is injected')
CODES = {'Infeasible': pulp.LpStatusInfeasible, 'Unbounded': pulp.LpStatusUnbounded, 'Undefined': pulp.LpStatusUndefined, 'Not Solved': pulp.LpStatusNotSolved}
STAT = ['matching:', 'size:', 'cost:', 'cost_sq:', 'degree:', 'profile:', 'max_lec_abs_diff:', 'sum_lec_abs_diff:', 'Student_assignments']


class FakeDT:
    """datetime stand-in whose now() advances only when the harness says so (T4: a time-limit stop consumes >= the limit)."""
    t = _dt.datetime(2020, 1, 1)
    class datetime:
        @staticmethod
        def now(): return FakeDT.t


def cases(rng, tier):
    n = 25 if tier == 'quick' else 600
    for _ in range(n):
        base = LP.rand_case(rng, ncrit=(0, 3), stab=False)
        if base['crits'] and rng.random() < 0.5:      # make sure generous / greedy appear often
            base['crits'][0][0] = rng.choice(['gen', 'gre']); base['crits'][0][2] = []
            names = set(); 
            for c in base['crits']:
                if c[0] in names: c[0] = [x for x in LP.CRIT if x not in names and x not in ('gen', 'gre')][0]; c[2] = []      # (extras belong to the old name)
                names.add(c[0])
        limit = rng.choice([None, None, 5])
        kinds = list(CODES) + (['timelimit-incumbent'] if limit else [])
        # count the solves of a fault-free run first (done in run_case); here enumerate plans over a generous upper range
        for pos in range(0, 5):
            for kind in kinds:
                for persistent in (False, True):
                    yield 'fault_sequence', dict(base, limit=limit, faults=[[pos, kind, persistent]], getter=rng.choice(['get_results', 'get_results_long']))
        for _ in range(4):
            f = sorted([[rng.randint(0, 4), rng.choice(kinds), False], [rng.randint(0, 4), rng.choice(kinds), rng.random() < 0.5]])
            yield 'fault_sequence', dict(base, limit=limit, faults=f, getter='get_results')


def nontrivial(kind, inp): return bool(inp['faults'])


def run_case(kind, inp):
    I = inp['instance']; plan = inp['faults']; limit = inp['limit']
    state = dict(n=0, log=[]); real = pulp.LpProblem.solve
    FakeDT.t = _dt.datetime(2020, 1, 1)

    def wrapper(self, solver=None, **kw):
        n = state['n']; state['n'] += 1
        st = real(self, solver, **kw)
        hit = None
        for pos, k, pers in plan:
            if n == pos or (pers and n >= pos): hit = k; break
        if hit == 'timelimit-incumbent':
            FakeDT.t = FakeDT.t + _dt.timedelta(seconds=(limit or 0) + 1); state['log'].append('TL'); return st
        if hit:
            self.status = CODES[hit]; state['log'].append(hit); return self.status
        state['log'].append(pulp.LpStatus[st]); return st

    pulp.LpProblem.solve = wrapper; old_dt = solver_mod.datetime; solver_mod.datetime = FakeDT
    try:
        r = S.run_solver(I, LP.flags_of(inp['crits'], inp['pc'], False), getter=inp['getter'], timeLimit=limit)
    finally:
        pulp.LpProblem.solve = real; solver_mod.datetime = old_dt
    if r['status'] != 'ok':
        return dict(expected='results text', observed='%s %s' % (r['status'], r['error']), function='LP_Solver.run', what='raise')
    text = r['text']; log = state['log']
    failed = [x for x in log if x != 'Optimal']
    if not failed: return None            # the planned position was never reached: an ordinary run (checked by C01-C05)
    shown = [k for k in STAT if k in text]
    first = failed[0]
    if shown:
        return dict(expected='no matching / statistics (solves: %r)' % log, observed='results show ' + ', '.join(shown), function='LP_Solver.run_optimisations', what='matching-after-' + first.replace(' ', ''))
    if first != 'TL' and len(log) > log.index(first) + 1:      # (a time-limit stop with incumbent is reported as Optimal: only the clock reveals it)
        return dict(expected='no solve after the first failure (solves: %r)' % log, observed='%d further solve(s)' % (len(log) - log.index(first) - 1), function='LP_Solver.run_optimisations', what='solve-after-failure')
    timeout_expected = limit is not None and (first in ('Not Solved', 'TL'))
    if timeout_expected:
        if 'Timeout' not in text: return dict(expected='Timeout line', observed=text[-150:], function='Model.get_results', what='no-timeout-line')
    else:
        if 'pulp_status: ' + first not in text: return dict(expected='pulp_status: ' + first, observed=text[-150:], function='Model.get_results', what='wrong-status-shown')
    return None
