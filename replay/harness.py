"""Bounded stand-in / counterexample search / replay on the REAL code.  Runs under /venv/bin/python with
PYTHONPATH=<repo>:/verif.  Prints one JSON object on the last line of stdout.
   harness.py Cxx --mode search|replay --seed N --budget S --tier quick|thorough [--file replay.json] [--focus f1,f2]
A property harness module replay/h_<id>.py defines:
   RULE: str                       how cases are generated / what makes one non-trivial
   cases(rng, tier): iterator of (kind, input)           (input JSON-serialisable)
   run_case(kind, input) -> None if the real code agrees with the executable specification,
                            else dict(expected=..., observed=..., function=<qualname hint>)
   nontrivial(kind, input) -> bool
"""
import sys, os, json, time, random, argparse, importlib, traceback, io, contextlib

sys.path.insert(0, os.path.dirname(os.path.abspath(__file__)))


def main():
    ap = argparse.ArgumentParser()
    ap.add_argument('prop'); ap.add_argument('--mode', default='search'); ap.add_argument('--seed', type=int, default=0)
    ap.add_argument('--budget', type=float, default=8); ap.add_argument('--tier', default='quick')
    ap.add_argument('--file'); ap.add_argument('--focus'); ap.add_argument('--models')
    a = ap.parse_args()
    h = importlib.import_module('h_' + a.prop.lower())
    out = dict(property=a.prop, evaluations=0, distinct=0, failures=[], rule=h.RULE, samples=[])
    if a.mode == 'replay':
        rec = json.load(open(a.file))
        r = safe_run(h, rec['kind'], rec['input'])
        out['evaluations'] = 1
        if r is not None: out['failures'].append(dict(kind=rec['kind'], input=rec['input'], **r))
        print(json.dumps(out, default=str)); return
    rng = random.Random(a.seed)
    t0 = time.time(); seen = set(); failkinds = {}
    # the verifier's counter-models first: replayed on the real code where they denote a complete input
    if a.models and hasattr(h, 'from_model'):
        for m in json.load(open(a.models)):
            try: ci = h.from_model(m)
            except Exception: ci = None
            if ci is None: continue
            out['evaluations'] += 1
            r = safe_run(h, ci[0], ci[1])
            if r is not None:
                out['failures'].append(dict(kind=ci[0], input=ci[1], from_verifier_model=True, obligation=m.get('__obligation__'), **r))
                break
    for kind, inp in h.cases(rng, a.tier):
        if time.time() - t0 > a.budget: break
        out['evaluations'] += 1
        key = json.dumps([kind, inp], sort_keys=True, default=str)
        if key not in seen and h.nontrivial(kind, inp):
            seen.add(key)
            if len(out['samples']) < 3: out['samples'].append(dict(kind=kind, input=inp))
        r = safe_run(h, kind, inp)
        if r is not None:
            fk = (kind, r.get('function'), str(r.get('what')))
            failkinds[fk] = failkinds.get(fk, 0) + 1
            if failkinds[fk] <= 1 and len(out['failures']) < 12:       # keep the first (smallest) witness per failure kind
                out['failures'].append(dict(kind=kind, input=inp, **r))
    out['distinct'] = len(seen)
    out['wall_s'] = round(time.time() - t0, 2)
    print(json.dumps(out, default=str))


def safe_run(h, kind, inp):
    try:
        with contextlib.redirect_stdout(io.StringIO()):
            return h.run_case(kind, inp)
    except Exception as ex:      # an exception escaping the harness itself (not the code under test)
        return dict(expected='harness completes', observed='harness exception: ' + traceback.format_exc()[-800:], what='harness')


if __name__ == '__main__':
    main()
