"""C10 bounded stand-in: the real reader on generated texts of the documented grammar vs. the instance they denote."""
import os, re
import oracles as O
from matchingproblems.solver import fileIO, enums

RULE = ('seeded random instances: small (<= 4 agents per side) and wide (up to 13 agents, so that two-digit numbers open / continue / close tie '
        'groups), 2- and 3-agent, with / without second-side lists and -twopl, trailing block present / absent, extra blanks between tokens; '
        'real import_model vs. the denoted instance (counts, projects and dense ranks per row, quotas, targets, project lecturers, '
        'lecturer ranks, derived project / lecturer / rank lists); non-trivial = some list has a tie')


def cases(rng, tier):
    n = 400 if tier == 'quick' else 4000
    for t in range(n):
        wide = t % 3 == 0
        na = rng.choice([2, 3])
        nS = rng.randint(1, 13 if wide else 4); nP = rng.randint(1, 13 if wide else 4); nL = rng.randint(1, 5)
        I = O.gen_instance(rng, nS, nP, nL, na=na, twopl=True, zero=rng.random() < 0.2, maxq=3, maxlen=min(nP, 6 if wide else 3))
        yield 'reader_call', dict(instance=I, twopl=rng.random() < 0.7, trailer=rng.random() < 0.7, blanks=rng.random() < 0.3)


def nontrivial(kind, inp): return any(any(t) for _, t in inp['instance']['rows'])


def run_case(kind, inp):
    I = dict(inp['instance']); text = O.to_text(I, inp['trailer'])
    if inp['blanks']: text = text.replace(' ', '   ').replace(':   ', ':  ')
    path = O.write_instance(I); open(path, 'w').write(text)
    try:
        io = {enums.Instance_options.NUMAGENTS: I['na'], enums.Instance_options.TWOPL: inp['twopl'], enums.Instance_options.PC: False}
        try: m = fileIO.import_model(path, io)
        except Exception as ex: return dict(expected='a model', observed='raised %s: %s' % (type(ex).__name__, ex), function='_import_from_file', what='raise')
    finally: os.unlink(path)
    J = dict(I, twopl=inp['twopl'])
    bad = lambda what, e, g, fn='_import_from_file': dict(expected='%s = %r' % (what, e), observed=repr(g), function=fn, what=what)
    if (m.num_students, m.num_projects, m.num_lecturers) != (I['nS'], I['nP'], I['nL']): return bad('counts', (I['nS'], I['nP'], I['nL']), (m.num_students, m.num_projects, m.num_lecturers))
    P = O.pairs(J)
    for i in range(I['nS']):
        e = [(q['p'], q['rs'], q['k'], q['rl']) for q in P if q['s'] == i + 1]
        g = [(p.projectID, p.rank_student, p.lecturerID, getattr(p, 'rank_lecturer', None)) for p in m.pairs[i]]
        if e != g: return bad('row %d (project, rank, lecturer, lecturer rank)' % (i + 1), e, g, '_get_simple_pref_list_and_ranks')
        if any(p.studentID != i + 1 or p.student_index != i or p.project_index != p.projectID - 1 or p.lecturer_index != p.lecturerID - 1 for p in m.pairs[i]):
            return bad('indices of row %d' % (i + 1), 'consistent', 'inconsistent', '_create_pairs_row')
    for name, e in (('proj_lower_quotas', I['plq']), ('proj_upper_quotas', I['puq']), ('lec_lower_quotas', I['llq']), ('lec_targets', I['tgt']),
                    ('lec_upper_quotas', I['luq']), ('proj_lecturers', I['lect'])):
        if list(getattr(m, name)) != list(e): return bad(name, e, list(getattr(m, name)))
    key = lambda p: (p.studentID, p.projectID)
    allp = [p for row in m.pairs for p in row]
    for j in range(I['nP']):
        if sorted(map(key, m.project_lists[j])) != sorted(key(p) for p in allp if p.projectID == j + 1): return bad('project_lists[%d]' % j, 'pairs of project', sorted(map(key, m.project_lists[j])), 'Model.set_project_lists')
    for k in range(I['nL']):
        if sorted(map(key, m.lecturer_lists[k])) != sorted(key(p) for p in allp if p.lecturerID == k + 1): return bad('lecturer_lists[%d]' % k, 'pairs of lecturer', sorted(map(key, m.lecturer_lists[k])), 'Model.set_lecturer_lists')
    R = O.maxrank(J)
    if len(m.rank_lists) != R: return bad('number of rank lists', R, len(m.rank_lists), 'Model.set_rank_lists')
    for r in range(R):
        if sorted(map(key, m.rank_lists[r])) != sorted(key(p) for p in allp if p.rank_student == r + 1): return bad('rank_lists[%d]' % r, 'pairs of rank', sorted(map(key, m.rank_lists[r])), 'Model.set_rank_lists')
    return None
