"""Sidecar contracts for matchingproblems/generator/generator_shared.py"""
M = 'generator_shared:'
CONTRACTS = {
 M + 'create_quotas': dict(
    params={'n': 'int', 'sum_q': 'int'},
    locals={'quotas': ('list', 'int')},
    requires=['n >= 1', 'sum_q >= 0'],        # + sum_q + n < 2**53 (int(a/b) rule, DESIGN 3.1)
    loops={0: dict(invariant=[
        'len(quotas) == _k',
        'forall(j, 0, _k, quotas[j] == quotient + ite(j < remainder, 1, 0))'])},
    returns=('list', 'int'),
    ensures=[('length', 'len(result) == n'),
             ('spread', 'forall(j, 0, n, result[j] == sum_q // n + ite(j < sum_q % n, 1, 0))')]),

 M + 'create_string_pref': dict(
    params={'pref_list': ('list', 'int'), 'ties_indicators': ('list', 'int')},
    locals={'string_pref': ('list', 'tok')},
    requires=['len(ties_indicators) >= len(pref_list)'],
    loops={0: dict(invariant=[
        'len(string_pref) == _k',
        'implies(_k < len(pref_list), in_tie == in_tie_at(ties_indicators, _k))',
        'forall(j, 0, _k, kind(string_pref[j]) == spec_kind(ties_indicators, j, len(pref_list))'
        ' and value(string_pref[j]) == pref_list[j])'])},
    returns=('list', 'tok'),
    ensures=[('length', 'len(result) == len(pref_list)'),
             ('tokens', 'forall(j, 0, len(result), kind(result[j]) == spec_kind(ties_indicators, j, len(pref_list))'
                        ' and value(result[j]) == pref_list[j])')]),
}
