"""Sidecar contracts for matchingproblems/generator/generator_shared.py"""
M = 'generator_shared:'
CONTRACTS = {
 M + 'create_quotas': dict(
    params={'n': 'int', 'sum_q': 'int'},
    locals={'quotas': ('list', 'int')},
    requires=['n >= 1', 'sum_q >= 0'],        # + sum_q + n < 2**53 (int(a/b) rule, DESIGN 3.1)
    loops={0: dict(invariant=[
        'len(quotas) == _k',
        'forall(j, 0, _k, quotas[j] == quotient + ite(j < remainder, 1, 0))'])},
    returns=('list', 'int'),
    ensures=[('length', 'len(result) == n'),
             ('spread', 'forall(j, 0, n, result[j] == sum_q // n + ite(j < sum_q % n, 1, 0))')]),

 M + 'create_string_pref': dict(
    params={'pref_list': ('list', 'int'), 'ties_indicators': ('list', 'int')},
    locals={'string_pref': ('list', 'tok')},
    requires=['len(ties_indicators) >= len(pref_list)'],
    loops={0: dict(invariant=[
        'len(string_pref) == _k',
        'implies(_k < len(pref_list), in_tie == in_tie_at(ties_indicators, _k))',
        'forall(j, 0, _k, kind(string_pref[j]) == spec_kind(ties_indicators, j, len(pref_list))'
        ' and value(string_pref[j]) == pref_list[j])'])},
    returns=('list', 'tok'),
    ensures=[('length', 'len(result) == len(pref_list)'),
             ('tokens', 'forall(j, 0, len(result), kind(result[j]) == spec_kind(ties_indicators, j, len(pref_list))'
                        ' and value(result[j]) == pref_list[j])')]),

 # Over the reals (floating point is outside the contract, DESIGN 13).  skew is a float, number_agents an int.
 M + 'create_linear_distribution': dict(
    params={'number_agents': 'int', 'skew': 'real'},
    requires=['number_agents >= 1', 'skew > 0'],
    defs={'C': ([], '(skew - 1) / (number_agents - 1)')},        # common difference of the un-normalised weights
    loops={0: dict(invariant=[
        'len(distribution) == number_agents',
        'forall(j, 0, _k + 1, distribution[j] == 1 + j * C())',
        'forall(j, 0, _k + 1, distribution[j] > 0)'])},
    use_lemmas={'return': [
        ('C17/sum-positive', {'d': 'distribution', 'n': 'number_agents'}),
        ('C17/scaled-sum', {'d': 'distribution', 'n': 'number_agents', 'S': 'SumR(j, number_agents, distribution[j])',
                            'r': 'distribution / SumR(j, number_agents, distribution[j])'})]},
    returns=('list', 'real'),
    ensures=[('length', 'len(result) == number_agents'),
             ('positive', 'forall(j, 0, number_agents, result[j] > 0)'),
             ('sums-to-one', 'SumR(j, number_agents, result[j]) == 1'),
             ('arithmetic-progression', 'forall(j, 0, number_agents - 2, result[j+2] - result[j+1] == result[j+1] - result[j])'),
             ('last-is-skew-times-first', 'implies(number_agents >= 2, result[number_agents - 1] == skew * result[0])'),
             ('single-agent-weight-one', 'implies(number_agents == 1, result[0] == 1)')]),

 # T10: np.random.choice draws each indicator from {0,1}; a value of probability 0 never occurs
 M + 'create_ties_indicators': dict(
    params={'pref_lists': ('list', ('list', 'int')), 'ties_prob': 'real'},
    locals={'ties_indicators': ('list', ('list', 'int'))},
    requires=['0 <= ties_prob', 'ties_prob <= 1'],
    loops={0: dict(invariant=[
        'len(ties_indicators) == _k',
        'forall(x, 0, _k, len(ties_indicators[x]) == len(pref_lists[x]))',
        'forall(x, 0, _k, forall(j, 0, len(pref_lists[x]), (ties_indicators[x][j] == 0 or ties_indicators[x][j] == 1)'
        ' and implies(ties_prob == 0, ties_indicators[x][j] == 0) and implies(ties_prob == 1, ties_indicators[x][j] == 1)))'])},
    returns=('list', ('list', 'int')),
    ensures=[('same-shape', 'len(result) == len(pref_lists) and forall(x, 0, len(result), len(result[x]) == len(pref_lists[x]))'),
             ('indicators', 'forall(x, 0, len(result), forall(j, 0, len(result[x]), (result[x][j] == 0 or result[x][j] == 1)'
                            ' and implies(ties_prob == 0, result[x][j] == 0) and implies(ties_prob == 1, result[x][j] == 1)))')]),

 # C12: an agent of the second side lists an agent of the first side exactly once iff that agent lists it.
 # Stated over the element-set view of lists (pyvc/listsets.py): elems(L), pelems(L, k), dupfree(L).
 M + 'create_pref_lists_from_other_lists': dict(
    params={'pref_lists_agent1': ('list', ('list', 'int')), 'n2': 'int', 'ties2': 'real'},
    locals={'prefs_lists_agent2': ('list', ('list', 'int'))},
    theory=['listsets'],
    defs={'n1': ([], 'len(pref_lists_agent1)'),
          # second-side agent h+1 is listed by first-side agent v (1-based)
          'listed_by': (['h', 'v'], '1 <= v and v <= n1() and (h + 1) in elems(pref_lists_agent1[v - 1])')},
    requires=['n2 >= 0', '0 <= ties2', 'ties2 <= 1',
              ('entries-in-range', 'forall(i, 0, n1(), forall(x, implies(x in elems(pref_lists_agent1[i]), 1 <= x and x <= n2)))'),
              ('first-side-lists-duplicate-free', 'forall(i, 0, n1(), dupfree(pref_lists_agent1[i]))')],
    loops={
      0: dict(invariant=[
        'len(prefs_lists_agent2) == n2',
        'forall(h, 0, n2, dupfree(prefs_lists_agent2[h]))',
        'forall(h, 0, n2, forall(v, (v in elems(prefs_lists_agent2[h])) == (v <= _k and listed_by(h, v))))']),
      1: dict(invariant=[
        'len(prefs_lists_agent2) == n2',
        'forall(h, 0, n2, dupfree(prefs_lists_agent2[h]))',
        'forall(h, 0, n2, forall(v, (v in elems(prefs_lists_agent2[h])) == ((v <= _k0 and listed_by(h, v))'
        ' or (v == _k0 + 1 and (h + 1) in pelems(pref_lists_agent1[_k0], _k)))))']),
      2: dict(invariant=[
        'len(prefs_lists_agent2) == n2',
        'forall(h, 0, n2, dupfree(prefs_lists_agent2[h]))',
        'forall(h, 0, n2, forall(v, (v in elems(prefs_lists_agent2[h])) == listed_by(h, v)))']),
    },
    returns=('tuple', ('list', ('list', 'int')), ('list', ('list', 'int'))),
    ensures=[('one-list-per-second-side-agent', 'len(result0) == n2'),
             ('lists-iff-listed-and-no-other-agent', 'forall(h, 0, n2, forall(v, (v in elems(result0[h])) == listed_by(h, v)))'),
             ('exactly-once', 'forall(h, 0, n2, dupfree(result0[h]))'),
             ('ties-shape', 'len(result1) == n2 and forall(h, 0, n2, len(result1[h]) == len(result0[h]))'),
             ('ties-values', 'forall(h, 0, n2, forall(j, 0, len(result1[h]), (result1[h][j] == 0 or result1[h][j] == 1)'
                             ' and implies(ties2 == 0, result1[h][j] == 0) and implies(ties2 == 1, result1[h][j] == 1)))')]),

 # C08: first-side lists: between pmin and pmax distinct agents of the other side (T10 for the draws)
 M + 'create_pref_lists_original': dict(
    params={'n1': 'int', 'n2': 'int', 'minpreflistlength': 'int', 'maxpreflistlength': 'int', 'ties1': 'real', 'skew': 'real'},
    locals={'pref_lists_agent1': ('list', ('list', 'int'))}, theory=['listsets'],
    requires=['n1 >= 1', 'n2 >= 1', '1 <= minpreflistlength', 'minpreflistlength <= maxpreflistlength', 'maxpreflistlength <= n2',
              '0 <= ties1', 'ties1 <= 1', 'skew > 0'],
    defs={'list_ok': (['L'], 'minpreflistlength <= len(L) and len(L) <= maxpreflistlength and dupfree(L) and forall(x, implies(x in elems(L), 1 <= x and x <= n2))')},
    loops={0: dict(invariant=['len(pref_lists_agent1) == n1', 'forall(i, 0, _k, list_ok(pref_lists_agent1[i]))'])},
    # C17 "used as sampling weights": the weights handed to every draw are the linear distribution for (n2, skew)
    asserts={'loop0.body_end': [('every-draw-uses-the-linear-popularity-weights',
        'len(_choice_weights) == n2 and forall(j, 0, n2, _choice_weights[j] > 0) and SumR(j, n2, _choice_weights[j]) == 1'
        ' and forall(j, 0, n2 - 2, _choice_weights[j+2] - _choice_weights[j+1] == _choice_weights[j+1] - _choice_weights[j])'
        ' and implies(n2 >= 2, _choice_weights[n2 - 1] == skew * _choice_weights[0]) and implies(n2 == 1, _choice_weights[0] == 1)')]},
    returns=('tuple', ('list', ('list', 'int')), ('list', ('list', 'int'))),
    ensures=[('one-list-per-first-side-agent', 'len(result0) == n1'),
             ('between-pmin-and-pmax-distinct-agents-of-the-other-side', 'forall(i, 0, n1, list_ok(result0[i]))'),
             ('ties-shape', 'len(result1) == n1 and forall(i, 0, n1, len(result1[i]) == len(result0[i]))'),
             ('ties-values', 'forall(i, 0, n1, forall(j, 0, len(result1[i]), (result1[i][j] == 0 or result1[i][j] == 1)'
                             ' and implies(ties1 == 0, result1[i][j] == 0) and implies(ties1 == 1, result1[i][j] == 1)))')]),
}
