"""Sidecar contracts for matchingproblems/generator/generator_spa.py"""
M = 'generator_spa:'
# prefix sum of the even spreading of n2 projects over n3 lecturers: lecturers 0..k-1 together hold P(k) projects
P = {'P': (['k'], 'k * (n2 // n3) + min(k, n2 % n3)')}
CONTRACTS = {
 M + 'Generator_spa.create_project_lecturers': dict(
    params={'n2': 'int', 'n3': 'int'}, self_fields={},
    locals={'num_projects_for_each_lecturer': ('list', 'int'), 'project_lecturers': ('list', 'int')},
    requires=['n2 >= 1', 'n3 >= 1'],                      # + n2 + n3 < 2**53 (int(a/b) rule, DESIGN 3.1)
    defs=P,
    loops={
      0: dict(invariant=[
        'len(num_projects_for_each_lecturer) == _k',
        'forall(j, 0, _k, num_projects_for_each_lecturer[j] == num_projects_for_lec_quotient + ite(j < num_projects_for_lec_remainder, 1, 0))']),
      1: dict(invariant=[
        'len(project_lecturers) == P(_k)',
        'forall(y, 0, len(project_lecturers), 1 <= project_lecturers[y] and project_lecturers[y] <= _k)',
        'forall(y, 0, len(project_lecturers), P(project_lecturers[y] - 1) <= y and y < P(project_lecturers[y]))']),
      2: dict(invariant=[
        'len(project_lecturers) == P(_k1) + _k',
        'forall(y, 0, len(project_lecturers), 1 <= project_lecturers[y] and project_lecturers[y] <= _k1 + 1)',
        'forall(y, 0, len(project_lecturers), P(project_lecturers[y] - 1) <= y and y < P(project_lecturers[y]))']),
    },
    returns=('list', 'int'),
    ensures=[('one-lecturer-per-project', 'len(result) == n2'),
             ('lecturer-ids-in-range', 'forall(y, 0, n2, 1 <= result[y] and result[y] <= n3)'),
             # project y belongs to lecturer k+1 exactly when P(k) <= y < P(k+1): lecturers get consecutive blocks of
             # sizes  n2 // n3 + [k < n2 % n3]  (larger shares first, spread <= 1, total n2: lemma C08/shares)
             ('blocks', 'forall(y, 0, n2, P(result[y] - 1) <= y and y < P(result[y]))')]),

 # C12: a student's lecturer list holds exactly the lecturers offering at least one project the student ranks.
 M + 'Generator_spa.create_student_lec_lists': dict(
    params={'pref_lists_students': ('list', ('list', 'int')), 'project_lecturers': ('list', 'int'), 'n3': 'int'}, self_fields={},
    locals={'student_lists': ('list', ('list', 'int')), 'student_lec_list': ('list', 'int')},
    theory=['listsets'],
    defs={# student s ranks (among the projects in set S) some project offered by lecturer v
          'offers_ranked': (['S', 'v'], 'exists(proj, proj in S and project_lecturers[proj - 1] == v)'),
          'spec_row': (['L', 's'], 'dupfree(L) and forall(v, (v in elems(L)) == (1 <= v and v <= n3 and offers_ranked(elems(pref_lists_students[s]), v)))')},
    requires=['n3 >= 0',
              ('lecturer-ids-in-range', 'forall(y, 0, len(project_lecturers), 1 <= project_lecturers[y] and project_lecturers[y] <= n3)'),
              ('projects-in-range', 'forall(s, 0, len(pref_lists_students), forall(x, implies(x in elems(pref_lists_students[s]), 1 <= x and x <= len(project_lecturers))))')],
    loops={
      0: dict(invariant=['len(student_lists) == _k', 'forall(s, 0, _k, spec_row(student_lists[s], s))']),
      1: dict(invariant=['len(ranked_lecs) == n3',
                         'forall(l, 0, n3, ranked_lecs[l] == offers_ranked(pelems(pref_lists_students[st_index], _k), l + 1))']),
      2: dict(invariant=['dupfree(student_lec_list)',
                         'forall(v, (v in elems(student_lec_list)) == (1 <= v and v <= _k and ranked_lecs[v - 1]))']),
    },
    returns=('list', ('list', 'int')),
    ensures=[('one-list-per-student', 'len(result) == len(pref_lists_students)'),
             ('exactly-the-lecturers-of-ranked-projects-each-once', 'forall(s, 0, len(result), spec_row(result[s], s))')]),
}
