"""Sidecar contracts for matchingproblems/solver/solver.py: the glue between option parsing, the model and the two solving modes
(C14 / C18 / C01 / C02: what Solver.solve hands to LP_Solver.run and what it stores in the model)."""
from contracts.lp_solver import ULC
M = 'solver:Solver.'
OP = 'self.options_parser.'
LISTS_OK = ('forall(r, 0, len(self.model.{0}), forall(q, 0, len(self.model.{0}[r]), self.model.{0}[r][q] != None and is_model_pair(self.model, self.model.{0}[r][q])))')
NEEDS_LB = ('exists(a, 0, len(' + OP + 'optimisation_options), ' + OP + 'optimisation_options[a][0] == Optimisation_options.LOADMAXBAL or '
            + OP + 'optimisation_options[a][0] == Optimisation_options.LOADSUMBAL or ' + OP + 'optimisation_options[a][0] == Optimisation_options.MINCOSTLSB)')
GR_PRE = ['sizes_ok(self.model)', 'pairs_ok(self.model)', 'has_vars(self.model.pairs)', 'self.model.num_lecturers >= 1',
          ('stability-needs-two-sided-lists', 'implies(' + OP + 'extra_constraints[Extra_constraints.STAB], two_sided(self.model))'),
          # the two solution facts Model.get_results needs (established by lemma C01/reported-matching-valid from Solver.solve's postcondition and T3)
          ('optimal-solution-is-binary', 'implies(code() == 1, forall(i, 0, len(self.model.pairs), forall(c, 0, len(self.model.pairs[i]), solved(self.model.pairs[i][c].lp_var) == 0 or solved(self.model.pairs[i][c].lp_var) == 1)))'),
          ('optimal-solution-respects-the-quotas', 'implies(code() == 1, forall(s, 0, self.model.num_students, solsum(self.model.pairs[s]) <= 1)'
           ' and forall(j, 0, self.model.num_projects, (PCF() and XP(j) == 0) or (self.model.proj_lower_quotas[j] <= XP(j) and XP(j) <= self.model.proj_upper_quotas[j]))'
           ' and forall(k, 0, self.model.num_lecturers, self.model.lec_lower_quotas[k] <= XL(k) and XL(k) <= self.model.lec_upper_quotas[k]))')]
GR_DEFS = {'code': ([], 'status_code(self.model.pulp_status)'), 'PCF': ([], OP + 'instance_options[Instance_options.PC]'),
           'X': (['i', 'c'], 'solved(self.model.pairs[i][c].lp_var)'),
           'XP': (['j'], 'Sum(i, len(self.model.pairs), Sum(c, len(self.model.pairs[i]), ite(self.model.pairs[i][c].project_index == j, X(i, c), 0))) + Sum(c, 0, ite(self.model.pairs[len(self.model.pairs)][c].project_index == j, X(len(self.model.pairs), c), 0))'),
           'XL': (['k'], 'Sum(i, len(self.model.pairs), Sum(c, len(self.model.pairs[i]), ite(self.model.pairs[i][c].lecturer_index == k, X(i, c), 0))) + Sum(c, 0, ite(self.model.pairs[len(self.model.pairs)][c].lecturer_index == k, X(len(self.model.pairs), c), 0))'),
           'timeout': ([], 'self.model.time_limit != None and (code() == 0 or self.model.time_after_solve - self.model.time_start > self.model.time_limit)'),
           'shows_matching': ([], "has_text(result, 'matching: ') or has_text(result, 'size: ') or has_text(result, 'cost: ') or has_text(result, 'profile: ') or has_text(result, 'Student_assignments')")}
# the model's text is handed through unchanged: what Model.get_results guarantees holds of the getter's result
GR_ENS = [('no-matching-unless-the-stored-status-is-Optimal', 'implies(code() != 1, not shows_matching())'),
          ('no-matching-on-timeout', 'implies(timeout(), not shows_matching())'),
          ('timeout-line-exactly-when-a-limit-was-exceeded-or-left-unsolved', "has_text(result, 'Timeout: ') == timeout()"),
          ('otherwise-the-stored-status-is-shown', "implies(not timeout(), after(result, 'pulp_status: ') == self.model.pulp_status)"),
          ('matching-and-statistics-when-Optimal', "implies(code() == 1 and not timeout(), has_text(result, 'matching: ') and has_text(result, 'size: '))")]
CONTRACTS = {
 'lp_solver:LP_Solver.__init__': dict(inline=True),
 M + 'solve': dict(
    params={'msg': 'bool', 'timeLimit': 'optint', 'threads': 'optint', 'write': 'bool'},
    # what Solver.__init__ leaves behind: a well-formed model (reader, C10) and an admissible option set (Options_parser.parse, C16)
    requires=['sizes_ok(self.model)', 'pairs_ok(self.model)', 'self.model.num_lecturers >= 1', 'rows_sorted(self.model)',
              ('one-list-per-project', 'len(self.model.project_lists) == self.model.num_projects'), ('one-list-per-lecturer', 'len(self.model.lecturer_lists) == self.model.num_lecturers'),
              ('derived-lists-hold-model-pairs', LISTS_OK.format('project_lists') + ' and ' + LISTS_OK.format('lecturer_lists') + ' and ' + LISTS_OK.format('rank_lists')),
              ('well-formed-targets', 'forall(k, 0, self.model.num_lecturers, 0 <= self.model.lec_lower_quotas[k] and 0 <= self.model.lec_targets[k] and self.model.lec_targets[k] <= self.model.lec_upper_quotas[k])'),
              ('stability-needs-two-sided-lists', 'implies(' + OP + 'extra_constraints[Extra_constraints.STAB], two_sided(self.model))'),
              # well-formed instance: a rank never exceeds the number of agents that can be ranked; admissible options: non-negative multipliers
              ('ranks-bounded', "forall(i, 0, len(self.model.pairs), forall(c, 0, len(self.model.pairs[i]), self.model.pairs[i][c].rank_student <= self.model.num_projects and implies(has(self.model.pairs[i][c], 'rank_lecturer'), 1 <= self.model.pairs[i][c].rank_lecturer and self.model.pairs[i][c].rank_lecturer <= self.model.num_students)))"),
              ('cost-multipliers-non-negative', 'forall(a, 0, len(' + OP + 'optimisation_options), implies((' + OP + 'optimisation_options[a][0] == Optimisation_options.MINCOST or ' + OP + 'optimisation_options[a][0] == Optimisation_options.MINSQCOST or ' + OP + 'optimisation_options[a][0] == Optimisation_options.MINCOSTLSB) and ' + OP + 'optimisation_options[a][1] != None, forall(t, 0, len(' + OP + 'optimisation_options[a][1]), ' + OP + 'optimisation_options[a][1][t] >= 0)))'),
              ('one-rank-list-per-rank', 'is_max_rank(self.model, len(self.model.rank_lists))'),
              # what set_rank_lists guarantees for EVERY weight of pair objects (lemma C02/rank-sums-compose)
              ('rank-list-sums-for-every-weight', 'forall(j, 0, len(self.model.rank_lists), wsum(self.model.rank_lists[j]) == RANKW(j))'),
              ('each-criterion-at-most-once', 'forall(a, 0, len(' + OP + 'optimisation_options), forall(b, a + 1, len(' + OP + 'optimisation_options), ' + OP + 'optimisation_options[a][0] != ' + OP + 'optimisation_options[b][0]))'),
              ('criteria-are-members', 'forall(a, 0, len(' + OP + 'optimisation_options), 1 <= ' + OP + 'optimisation_options[a][0] and ' + OP + 'optimisation_options[a][0] <= 9)'),
              ('extras-are-lists-where-used', 'forall(a, 0, len(' + OP + 'optimisation_options), implies(' + ' or '.join(OP + 'optimisation_options[a][0] == Optimisation_options.' + c for c in ('GENEROUS', 'GREEDY', 'MINCOST', 'MINSQCOST', 'MINCOSTLSB')) + ', ' + OP + 'optimisation_options[a][1] != None))')],
    defs=dict(ULC, RANKW=(['j'], 'Sum(i, len(self.model.pairs), Sum(c, len(self.model.pairs[i]), ite(self.model.pairs[i][c].rank_student == j + 1, W(self.model.pairs[i][c]), 0)))'), BF=([], OP + 'solver_options[Solver_options.BRUTEFORCE]'), PCF=([], OP + 'instance_options[Instance_options.PC]')),
    modifies=['self.solver', 'self.model.time_limit', 'self.model.time_after_model_creation', 'self.model.time_after_solve', 'self.model.pulp_status', 'self.model.info_string',
              'self.model.project_closures', 'self.model.abs_lec_diff', 'self.model.lec_overload', 'self.model.lec_underload', 'heap:lp_var', 'heap:alpha_var', 'heap:beta_var',
              'ghost:*'],
    ensures=[('time-limit-stored', 'self.model.time_limit == timeLimit'),
             ('lp-mode-every-pair-has-its-variable', 'implies(not BF(), has_vars(self.model.pairs))'),
             # C01: whatever valuation satisfies the program that was solved gives every pair variable 0 or 1 and respects every quota
             ('lp-mode-every-solution-of-the-program-is-binary-and-within-the-quotas', 'implies(not BF() and feas(), '
              'forall(i, 0, self.model.num_students, forall(c, 0, len(self.model.pairs[i]), 0 <= nu(self.model.pairs[i][c].lp_var) and nu(self.model.pairs[i][c].lp_var) <= 1))'
              ' and forall(i, 0, self.model.num_students, st_ok(i)) and forall(j, 0, self.model.num_projects, pr_ok(j, PCF()))'
              ' and forall(k, 0, self.model.num_lecturers, le_ok(k))'
              ' and implies(PCF(), forall(j, 0, self.model.num_projects, 0 <= nu(self.model.project_closures[j]) and nu(self.model.project_closures[j]) <= 1)))'),
             # LP mode: a fresh problem was built, solved at least once, and the model holds the status of the last solve
             ('lp-mode-stores-the-status-of-the-last-solve', 'implies(not BF(), solves() > old(solves()) and hist(solves() - 1) == status() and self.model.pulp_status == LpStatus[status()])'),
             ('lp-mode-only-the-last-solve-may-have-failed', 'implies(not BF(), forall(u, old(solves()), solves() - 1, hist(u) == 1))')]),
 # the thin getters: pure, and they hand the model's text through unchanged
 M + 'get_results_short': dict(pure=True, requires=GR_PRE, returns=('str', 'results'), defs=GR_DEFS, ensures=GR_ENS,
    call_ghost={'Model.get_results': {'pc': OP + 'instance_options[Instance_options.PC]'}}),
 M + 'get_results_long': dict(pure=True, requires=GR_PRE, returns=('str', 'results'), defs=GR_DEFS, ensures=GR_ENS,
    call_ghost={'Model.get_results': {'pc': OP + 'instance_options[Instance_options.PC]'}}),
 M + 'get_debug': dict(pure=True, requires=['sizes_ok(self.model)', 'pairs_ok(self.model)'], returns=('str', 'debug')),
}
