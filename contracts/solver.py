"""Sidecar contracts for matchingproblems/solver/solver.py: the glue between option parsing, the model and the two solving modes
(C14 / C18 / C01 / C02: what Solver.solve hands to LP_Solver.run and what it stores in the model)."""
M = 'solver:Solver.'
OP = 'self.options_parser.'
LISTS_OK = ('forall(r, 0, len(self.model.{0}), forall(q, 0, len(self.model.{0}[r]), self.model.{0}[r][q] != None and is_model_pair(self.model, self.model.{0}[r][q])))')
NEEDS_LB = ('exists(a, 0, len(' + OP + 'optimisation_options), ' + OP + 'optimisation_options[a][0] == Optimisation_options.LOADMAXBAL or '
            + OP + 'optimisation_options[a][0] == Optimisation_options.LOADSUMBAL or ' + OP + 'optimisation_options[a][0] == Optimisation_options.MINCOSTLSB)')
GR_PRE = ['sizes_ok(self.model)', 'pairs_ok(self.model)', 'has_vars(self.model.pairs)', 'self.model.num_lecturers >= 1',
          ('stability-line-not-covered-here', 'not ' + OP + 'extra_constraints[Extra_constraints.STAB]')]
GR_DEFS = {'code': ([], 'status_code(self.model.pulp_status)'),
           'timeout': ([], 'self.model.time_limit != None and (code() == 0 or self.model.time_after_solve - self.model.time_start > self.model.time_limit)'),
           'shows_matching': ([], "has_text(result, 'matching: ') or has_text(result, 'size: ') or has_text(result, 'cost: ') or has_text(result, 'profile: ') or has_text(result, 'Student_assignments')")}
# the model's text is handed through unchanged: what Model.get_results guarantees holds of the getter's result
GR_ENS = [('no-matching-unless-the-stored-status-is-Optimal', 'implies(code() != 1, not shows_matching())'),
          ('no-matching-on-timeout', 'implies(timeout(), not shows_matching())'),
          ('timeout-line-exactly-when-a-limit-was-exceeded-or-left-unsolved', "has_text(result, 'Timeout: ') == timeout()"),
          ('otherwise-the-stored-status-is-shown', "implies(not timeout(), after(result, 'pulp_status: ') == self.model.pulp_status)"),
          ('matching-and-statistics-when-Optimal', "implies(code() == 1 and not timeout(), has_text(result, 'matching: ') and has_text(result, 'size: '))")]
CONTRACTS = {
 'lp_solver:LP_Solver.__init__': dict(inline=True),
 M + 'solve': dict(
    params={'msg': 'bool', 'timeLimit': 'optint', 'threads': 'optint', 'write': 'bool'},
    # what Solver.__init__ leaves behind: a well-formed model (reader, C10) and an admissible option set (Options_parser.parse, C16)
    requires=['sizes_ok(self.model)', 'pairs_ok(self.model)', 'self.model.num_lecturers >= 1', 'rows_sorted(self.model)',
              'len(self.model.project_lists) == self.model.num_projects', 'len(self.model.lecturer_lists) == self.model.num_lecturers',
              ('derived-lists-hold-model-pairs', LISTS_OK.format('project_lists') + ' and ' + LISTS_OK.format('lecturer_lists') + ' and ' + LISTS_OK.format('rank_lists')),
              ('well-formed-targets', 'forall(k, 0, self.model.num_lecturers, 0 <= self.model.lec_targets[k] and self.model.lec_targets[k] <= self.model.lec_upper_quotas[k])'),
              ('stability-needs-two-sided-lists', 'implies(' + OP + 'extra_constraints[Extra_constraints.STAB], two_sided(self.model))'),
              ('each-criterion-at-most-once', 'forall(a, 0, len(' + OP + 'optimisation_options), forall(b, a + 1, len(' + OP + 'optimisation_options), ' + OP + 'optimisation_options[a][0] != ' + OP + 'optimisation_options[b][0]))'),
              ('criteria-are-members', 'forall(a, 0, len(' + OP + 'optimisation_options), 1 <= ' + OP + 'optimisation_options[a][0] and ' + OP + 'optimisation_options[a][0] <= 9)'),
              ('extras-are-lists-where-used', 'forall(a, 0, len(' + OP + 'optimisation_options), implies(' + ' or '.join(OP + 'optimisation_options[a][0] == Optimisation_options.' + c for c in ('GENEROUS', 'GREEDY', 'MINCOST', 'MINSQCOST', 'MINCOSTLSB')) + ', ' + OP + 'optimisation_options[a][1] != None))')],
    defs={'BF': ([], OP + 'solver_options[Solver_options.BRUTEFORCE]')},
    modifies=['self.solver', 'self.model.time_limit', 'self.model.time_after_model_creation', 'self.model.time_after_solve', 'self.model.pulp_status', 'self.model.info_string',
              'self.model.project_closures', 'self.model.abs_lec_diff', 'self.model.lec_overload', 'self.model.lec_underload', 'heap:lp_var', 'heap:alpha_var', 'heap:beta_var',
              'ghost:*'],
    ensures=[('time-limit-stored', 'self.model.time_limit == timeLimit'),
             ('lp-mode-every-pair-has-its-variable', 'implies(not BF(), has_vars(self.model.pairs))'),
             # LP mode: a fresh problem was built, solved at least once, and the model holds the status of the last solve
             ('lp-mode-stores-the-status-of-the-last-solve', 'implies(not BF(), solves() > old(solves()) and hist(solves() - 1) == status() and self.model.pulp_status == LpStatus[status()])'),
             ('lp-mode-only-the-last-solve-may-have-failed', 'implies(not BF(), forall(u, old(solves()), solves() - 1, hist(u) == 1))')]),
 # the thin getters: pure, and they hand the model's text through unchanged
 M + 'get_results_short': dict(pure=True, requires=GR_PRE, returns=('str', 'results'), defs=GR_DEFS, ensures=GR_ENS),
 M + 'get_results_long': dict(pure=True, requires=GR_PRE, returns=('str', 'results'), defs=GR_DEFS, ensures=GR_ENS),
 M + 'get_debug': dict(pure=True, requires=['sizes_ok(self.model)', 'pairs_ok(self.model)'], returns=('str', 'debug')),
}
