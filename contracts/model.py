"""Sidecar contracts for matchingproblems/solver/model.py"""
M = 'model:Model.'
P = 'model:Pair.'
LIST_OK = 'forall(q, 0, len(pair_assignments), pair_ok(self, pair_assignments[q]))'
NLIST_OK = 'forall(q, 0, len(pair_assignments_with_none), implies(pair_assignments_with_none[q] != None, pair_ok(self, pair_assignments_with_none[q])))'
PRE = ['sizes_ok(self)', LIST_OK]
NPRE = ['sizes_ok(self)', NLIST_OK]
PA = {'pair_assignments': ('list', 'ref')}
PAN = {'pair_assignments_with_none': ('list', 'ref')}

CONTRACTS = {
 P + '__init__': dict(inline=True), P + 'set_lecturer': dict(inline=True), P + 'set_lecturer_rank': dict(inline=True),

 M + '_get_max_rank': dict(
    requires=['sizes_ok(self)', 'pairs_ok(self)'],
    loops={0: dict(invariant=['max_rank >= 0',
                              'forall(i, 0, _k, forall(c, 0, len(self.pairs[i]), self.pairs[i][c].rank_student <= max_rank))',
                              'max_rank == 0 or exists(i, 0, _k, exists(c, 0, len(self.pairs[i]), self.pairs[i][c].rank_student == max_rank))']),
           1: dict(invariant=['max_rank >= 0',
                              'forall(i, 0, _k0, forall(c, 0, len(self.pairs[i]), self.pairs[i][c].rank_student <= max_rank))',
                              'forall(c, 0, _k, self.pairs[_k0][c].rank_student <= max_rank)',
                              'max_rank == 0 or exists(i, 0, _k0, exists(c, 0, len(self.pairs[i]), self.pairs[i][c].rank_student == max_rank))'
                              ' or exists(c, 0, _k, self.pairs[_k0][c].rank_student == max_rank)'])},
    returns='int',
    ensures=[('upper-bound', 'forall(i, 0, len(self.pairs), forall(c, 0, len(self.pairs[i]), self.pairs[i][c].rank_student <= result))'),
             ('attained-or-zero', 'result == 0 or exists(i, 0, len(self.pairs), exists(c, 0, len(self.pairs[i]), self.pairs[i][c].rank_student == result))'),
             ('non-negative', 'result >= 0')]),

 M + 'get_max_lec_upper_quota': dict(
    requires=['sizes_ok(self)', 'self.num_lecturers >= 1'],
    returns='int',
    ensures=[('upper-bound', 'forall(k, 0, self.num_lecturers, self.lec_upper_quotas[k] <= result)'),
             ('attained', 'exists(k, 0, self.num_lecturers, self.lec_upper_quotas[k] == result)')]),

 # ---- C11: statistic helpers = the measures of the property statement, over the list of matched pairs
 M + '_get_cost': dict(
    params=PA, requires=PRE,
    loops={0: dict(invariant=['cost_st == Sum(q, _k, pair_assignments[q].rank_student)',
                              'cost_lec == Sum(q, _k, rl(pair_assignments[q]))'])},
    returns=('tuple', 'int', 'int'),
    ensures=[('student-cost', 'result0 == Sum(q, len(pair_assignments), pair_assignments[q].rank_student)'),
             ('lecturer-cost-zero-when-one-sided', 'result1 == Sum(q, len(pair_assignments), rl(pair_assignments[q]))')]),

 M + '_get_cost_sq': dict(
    params=PA, requires=PRE,
    loops={0: dict(invariant=['cost_sq_st == Sum(q, _k, pair_assignments[q].rank_student * pair_assignments[q].rank_student)',
                              'cost_sq_lec == Sum(q, _k, rl(pair_assignments[q]) * rl(pair_assignments[q]))'])},
    returns=('tuple', 'int', 'int'),
    ensures=[('student-sq-cost', 'result0 == Sum(q, len(pair_assignments), pair_assignments[q].rank_student * pair_assignments[q].rank_student)'),
             ('lecturer-sq-cost', 'result1 == Sum(q, len(pair_assignments), rl(pair_assignments[q]) * rl(pair_assignments[q]))')]),

 M + '_get_degree': dict(
    params=PA, requires=PRE,
    loops={0: dict(invariant=['max_matched_rank >= 0',
                              'forall(q, 0, _k, pair_assignments[q].rank_student <= max_matched_rank)',
                              'max_matched_rank == 0 or exists(q, 0, _k, pair_assignments[q].rank_student == max_matched_rank)'])},
    returns='int',
    ensures=[('upper-bound', 'forall(q, 0, len(pair_assignments), pair_assignments[q].rank_student <= result)'),
             ('attained-or-zero', 'result == 0 or exists(q, 0, len(pair_assignments), pair_assignments[q].rank_student == result)')]),

 M + '_get_profile': dict(
    params=PA, requires=PRE + ['pairs_ok(self)', ('matched-pairs-belong-to-the-instance', 'forall(q, 0, len(pair_assignments), is_model_pair(self, pair_assignments[q]))')],
    loops={0: dict(invariant=['len(rank_allocations) == max_rank',
                              'forall(r, 0, max_rank, rank_allocations[r] == Count(q, _k, pair_assignments[q].rank_student == r + 1))'])},
    returns=('list', 'int'),
    ensures=[('one-entry-per-rank', 'forall(i, 0, len(self.pairs), forall(c, 0, len(self.pairs[i]), self.pairs[i][c].rank_student <= len(result)))'
                                    ' and (len(result) == 0 or exists(i, 0, len(self.pairs), exists(c, 0, len(self.pairs[i]), self.pairs[i][c].rank_student == len(result))))'),
             ('counts', 'forall(r, 0, len(result), result[r] == Count(q, len(pair_assignments), pair_assignments[q].rank_student == r + 1))')]),

 M + '_get_lec_abs_diffs': dict(
    params=PA, requires=PRE,
    loops={0: dict(invariant=['len(lec_num_allocations) == self.num_lecturers',
                              'forall(k, 0, self.num_lecturers, lec_num_allocations[k] == Count(q, _k, pair_assignments[q].lecturer_index == k))']),
           1: dict(invariant=['len(lec_abs_diffs) == self.num_lecturers',
                              'forall(k, 0, _k, lec_abs_diffs[k] == abs(lec_num_allocations[k] - self.lec_targets[k]))'])},
    returns=('list', 'int'),
    ensures=[('one-per-lecturer', 'len(result) == self.num_lecturers'),
             ('deviation', 'forall(k, 0, self.num_lecturers, result[k] == abs(Count(q, len(pair_assignments), pair_assignments[q].lecturer_index == k) - self.lec_targets[k]))')]),

 M + '_get_max_lec_abs_diff': dict(
    params=PA, requires=PRE,
    loops={0: dict(invariant=['max_lec_abs_diff >= 0', 'forall(k, 0, _k, lec_abs_diffs[k] <= max_lec_abs_diff)',
                              'max_lec_abs_diff == 0 or exists(k, 0, _k, lec_abs_diffs[k] == max_lec_abs_diff)'])},
    returns='int',
    ensures=[('upper-bound', 'forall(k, 0, self.num_lecturers, abs(Count(q, len(pair_assignments), pair_assignments[q].lecturer_index == k) - self.lec_targets[k]) <= result)'),
             ('attained-or-zero', 'result == 0 or exists(k, 0, self.num_lecturers, abs(Count(q, len(pair_assignments), pair_assignments[q].lecturer_index == k) - self.lec_targets[k]) == result)')]),

 M + '_get_sum_lec_abs_diff': dict(
    params=PA, requires=PRE,
    loops={0: dict(invariant=['sum_lec_abs_diff == Sum(k, _k, lec_abs_diffs[k])'])},
    returns='int',
    ensures=[('sum', 'exists_list(D, len(D) == self.num_lecturers and forall(k, 0, self.num_lecturers, D[k] == abs(Count(q, len(pair_assignments), pair_assignments[q].lecturer_index == k) - self.lec_targets[k])) and result == Sum(k, self.num_lecturers, D[k]))')]),
}
