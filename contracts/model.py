"""Sidecar contracts for matchingproblems/solver/model.py"""
M = 'model:Model.'
P = 'model:Pair.'
LIST_OK = 'forall(q, 0, len(pair_assignments), pair_ok(self, pair_assignments[q]))'
NLIST_OK = 'forall(q, 0, len(pair_assignments_with_none), implies(pair_assignments_with_none[q] != None, pair_ok(self, pair_assignments_with_none[q])))'
PRE = ['sizes_ok(self)', LIST_OK]
NPRE = ['sizes_ok(self)', NLIST_OK]
PA = {'pair_assignments': ('list', 'ref')}
BINARY_VALUES = 'forall(i, 0, len(self.pairs), forall(c, 0, len(self.pairs[i]), solved(self.pairs[i][c].lp_var) == 0 or solved(self.pairs[i][c].lp_var) == 1))'
PAN = {'pair_assignments_with_none': ('list', 'ref')}

CONTRACTS = {
 P + '__init__': dict(inline=True), P + 'set_lecturer': dict(inline=True), P + 'set_lecturer_rank': dict(inline=True),

 M + '_get_max_rank': dict(
    requires=['sizes_ok(self)', 'pairs_ok(self)'],
    loops={0: dict(invariant=['max_rank >= 0',
                              'forall(i, 0, _k, forall(c, 0, len(self.pairs[i]), self.pairs[i][c].rank_student <= max_rank))',
                              'max_rank == 0 or exists(i, 0, _k, exists(c, 0, len(self.pairs[i]), self.pairs[i][c].rank_student == max_rank))']),
           1: dict(invariant=['max_rank >= 0',
                              'forall(i, 0, _k0, forall(c, 0, len(self.pairs[i]), self.pairs[i][c].rank_student <= max_rank))',
                              'forall(c, 0, _k, self.pairs[_k0][c].rank_student <= max_rank)',
                              'max_rank == 0 or exists(i, 0, _k0, exists(c, 0, len(self.pairs[i]), self.pairs[i][c].rank_student == max_rank))'
                              ' or exists(c, 0, _k, self.pairs[_k0][c].rank_student == max_rank)'])},
    returns='int',
    ensures=[('upper-bound', 'forall(i, 0, len(self.pairs), forall(c, 0, len(self.pairs[i]), self.pairs[i][c].rank_student <= result))'),
             ('attained-or-zero', 'result == 0 or exists(i, 0, len(self.pairs), exists(c, 0, len(self.pairs[i]), self.pairs[i][c].rank_student == result))'),
             ('non-negative', 'result >= 0')]),

 M + 'get_max_lec_upper_quota': dict(
    requires=['sizes_ok(self)', 'self.num_lecturers >= 1'],
    returns='int',
    ensures=[('upper-bound', 'forall(k, 0, self.num_lecturers, self.lec_upper_quotas[k] <= result)'),
             ('attained', 'exists(k, 0, self.num_lecturers, self.lec_upper_quotas[k] == result)')]),

 # ---- C11: statistic helpers = the measures of the property statement, over the list of matched pairs
 M + '_get_cost': dict(
    params=PA, requires=PRE,
    loops={0: dict(invariant=['cost_st == Sum(q, _k, pair_assignments[q].rank_student)',
                              'cost_lec == Sum(q, _k, rl(pair_assignments[q]))'])},
    returns=('tuple', 'int', 'int'),
    ensures=[('student-cost', 'result0 == Sum(q, len(pair_assignments), pair_assignments[q].rank_student)'),
             ('lecturer-cost-zero-when-one-sided', 'result1 == Sum(q, len(pair_assignments), rl(pair_assignments[q]))')]),

 M + '_get_cost_sq': dict(
    params=PA, requires=PRE,
    loops={0: dict(invariant=['cost_sq_st == Sum(q, _k, pair_assignments[q].rank_student * pair_assignments[q].rank_student)',
                              'cost_sq_lec == Sum(q, _k, rl(pair_assignments[q]) * rl(pair_assignments[q]))'])},
    returns=('tuple', 'int', 'int'),
    ensures=[('student-sq-cost', 'result0 == Sum(q, len(pair_assignments), pair_assignments[q].rank_student * pair_assignments[q].rank_student)'),
             ('lecturer-sq-cost', 'result1 == Sum(q, len(pair_assignments), rl(pair_assignments[q]) * rl(pair_assignments[q]))')]),

 M + '_get_degree': dict(
    params=PA, requires=PRE,
    loops={0: dict(invariant=['max_matched_rank >= 0',
                              'forall(q, 0, _k, pair_assignments[q].rank_student <= max_matched_rank)',
                              'max_matched_rank == 0 or exists(q, 0, _k, pair_assignments[q].rank_student == max_matched_rank)'])},
    returns='int',
    ensures=[('upper-bound', 'forall(q, 0, len(pair_assignments), pair_assignments[q].rank_student <= result)'),
             ('attained-or-zero', 'result == 0 or exists(q, 0, len(pair_assignments), pair_assignments[q].rank_student == result)')]),

 M + '_get_profile': dict(
    params=PA, requires=PRE + ['pairs_ok(self)', ('matched-pairs-belong-to-the-instance', 'forall(q, 0, len(pair_assignments), is_model_pair(self, pair_assignments[q]))')],
    loops={0: dict(invariant=['len(rank_allocations) == max_rank',
                              'forall(r, 0, max_rank, rank_allocations[r] == Count(q, _k, pair_assignments[q].rank_student == r + 1))'])},
    returns=('list', 'int'),
    ensures=[('one-entry-per-rank', 'forall(i, 0, len(self.pairs), forall(c, 0, len(self.pairs[i]), self.pairs[i][c].rank_student <= len(result)))'
                                    ' and (len(result) == 0 or exists(i, 0, len(self.pairs), exists(c, 0, len(self.pairs[i]), self.pairs[i][c].rank_student == len(result))))'),
             ('counts', 'forall(r, 0, len(result), result[r] == Count(q, len(pair_assignments), pair_assignments[q].rank_student == r + 1))')]),

 M + '_get_lec_abs_diffs': dict(
    params=PA, requires=PRE,
    loops={0: dict(invariant=['len(lec_num_allocations) == self.num_lecturers',
                              'forall(k, 0, self.num_lecturers, lec_num_allocations[k] == loadL_upto(pair_assignments, k, _k))']),
           1: dict(invariant=['len(lec_abs_diffs) == self.num_lecturers',
                              'forall(k, 0, _k, lec_abs_diffs[k] == abs(lec_num_allocations[k] - self.lec_targets[k]))'])},
    returns=('list', 'int'),
    ensures=[('one-per-lecturer', 'len(result) == self.num_lecturers'),
             ('deviation', 'forall(k, 0, self.num_lecturers, result[k] == abs(loadL(pair_assignments, k) - self.lec_targets[k]))')]),

 M + '_get_max_lec_abs_diff': dict(
    params=PA, requires=PRE,
    loops={0: dict(invariant=['max_lec_abs_diff >= 0', 'forall(k, 0, _k, lec_abs_diffs[k] <= max_lec_abs_diff)',
                              'max_lec_abs_diff == 0 or exists(k, 0, _k, lec_abs_diffs[k] == max_lec_abs_diff)'])},
    returns='int',
    ensures=[('non-negative', 'result >= 0'),
             ('upper-bound', 'forall(k, 0, self.num_lecturers, abs(loadL(pair_assignments, k) - self.lec_targets[k]) <= result)'),
             ('attained-or-zero', 'result == 0 or exists(k, 0, self.num_lecturers, abs(loadL(pair_assignments, k) - self.lec_targets[k]) == result)')]),

 M + '_get_sum_lec_abs_diff': dict(
    params=PA, requires=PRE,
    defs={'dev': (['k'], 'abs(loadL(pair_assignments, k) - self.lec_targets[k])')},
    loops={0: dict(invariant=['sum_lec_abs_diff == Sum(k, _k, dev(k))'])},
    returns='int',
    ensures=[('sum-of-deviations', 'result == Sum(k, self.num_lecturers, dev(k))')]),

 # the printed matching line: entry i is the project of student i+1's (last) matched pair, 0 when there is none
 M + '_get_matching_string': dict(
    params=PA, requires=PRE,
    defs={'entry_ok': (['Mi', 'i', 'upto'], '(Mi == 0 and forall(q, 0, upto, pair_assignments[q].student_index != i)) or '
                       'exists(q, 0, upto, pair_assignments[q].student_index == i and Mi == pair_assignments[q].projectID '
                       'and forall(q2, q + 1, upto, pair_assignments[q2].student_index != i))')},
    loops={0: dict(invariant=['len(matching) == self.num_students',
                              'forall(i, 0, self.num_students, entry_ok(int(matching[i]), i, _k))'])},
    returns=('joinstr', ' ', 'strint'),
    ensures=[('blank-separated-one-entry-per-student', 'len(joined(result)) == self.num_students'),
             ('entries', 'forall(i, 0, self.num_students, entry_ok(int(joined(result)[i]), i, len(pair_assignments)))')]),

 # size = number of students that have a matched pair
 M + '_get_matching_size': dict(
    params=PA, requires=PRE + [('project-ids-positive', 'forall(q, 0, len(pair_assignments), pair_assignments[q].projectID >= 1)')],
    defs={'assigned': (['i', 'upto'], 'exists(q, 0, upto, pair_assignments[q].student_index == i)')},
    loops={0: dict(invariant=['len(matching) == self.num_students',
                              'forall(i, 0, self.num_students, (int(matching[i]) != 0) == assigned(i, _k))'])},
    use_lemmas={'return': [('SUM/ext', {'f': "lam(i, self.num_students, ite(matching[i] == '0', 1, 0))",
                                        'g': 'lam(i, self.num_students, ite(not assigned(i, len(pair_assignments)), 1, 0))',
                                        'n': 'self.num_students'})]},
    returns='int',
    ensures=[('number-of-assigned-students', 'result == self.num_students - Count(i, self.num_students, not assigned(i, len(pair_assignments)))')]),


 # ---- C06: the stability checker and its helpers
 M + 'get_num_assignments_projects': dict(
    params=PAN, requires=NPRE,
    loops={0: dict(invariant=['len(num_assignments) == self.num_projects',
                              'forall(j, 0, self.num_projects, num_assignments[j] == loadP_upto(pair_assignments_with_none, j, _k))'])},
    returns=('list', 'int'),
    ensures=[('one-per-project', 'len(result) == self.num_projects'),
             ('loads', 'forall(j, 0, self.num_projects, result[j] == loadP(pair_assignments_with_none, j))')]),
 M + 'get_num_assignments_lecturers': dict(
    params=PAN, requires=NPRE,
    loops={0: dict(invariant=['len(num_assignments) == self.num_lecturers',
                              'forall(j, 0, self.num_lecturers, num_assignments[j] == loadL_upto(pair_assignments_with_none, j, _k))'])},
    returns=('list', 'int'),
    ensures=[('one-per-lecturer', 'len(result) == self.num_lecturers'),
             ('loads', 'forall(k, 0, self.num_lecturers, result[k] == loadL(pair_assignments_with_none, k))')]),
 M + 'get_worst_rank_projects': dict(
    params=PAN, requires=NPRE + [('two-sided', "forall(q, 0, len(pair_assignments_with_none), implies(pair_assignments_with_none[q] != None, has(pair_assignments_with_none[q], 'rank_lecturer')))")],
    defs={'at': (['q', 'j'], 'pair_assignments_with_none[q] != None and pair_assignments_with_none[q].project_index == j')},
    loops={0: dict(invariant=['len(worst_ranks) == self.num_projects',
        'forall(j, 0, self.num_projects, opt_is_none(worst_ranks[j]) == forall(q, 0, _k, not at(q, j)))',
        'forall(j, 0, self.num_projects, implies(not opt_is_none(worst_ranks[j]), '
        'forall(q, 0, _k, implies(at(q, j), pair_assignments_with_none[q].rank_lecturer <= opt_val(worst_ranks[j])))'
        ' and exists(q, 0, _k, at(q, j) and pair_assignments_with_none[q].rank_lecturer == opt_val(worst_ranks[j]))))'])},
    returns=('list', 'optint'),
    ensures=[('one-per-project', 'len(result) == self.num_projects'),
             ('none-iff-no-assignee', 'forall(j, 0, self.num_projects, opt_is_none(result[j]) == (not someone_at_P(pair_assignments_with_none, j)))'),
             ('worst-rank', 'forall(j, 0, self.num_projects, implies(not opt_is_none(result[j]), '
                            'forall(q, 0, len(pair_assignments_with_none), implies(at(q, j), pair_assignments_with_none[q].rank_lecturer <= opt_val(result[j])))'
                            ' and exists(q, 0, len(pair_assignments_with_none), at(q, j) and pair_assignments_with_none[q].rank_lecturer == opt_val(result[j]))))')]),
 M + 'get_worst_rank_lecturers': dict(
    params=PAN, requires=NPRE + [('two-sided', "forall(q, 0, len(pair_assignments_with_none), implies(pair_assignments_with_none[q] != None, has(pair_assignments_with_none[q], 'rank_lecturer')))")],
    defs={'at': (['q', 'j'], 'pair_assignments_with_none[q] != None and pair_assignments_with_none[q].lecturer_index == j')},
    loops={0: dict(invariant=['len(worst_ranks) == self.num_lecturers',
        'forall(j, 0, self.num_lecturers, opt_is_none(worst_ranks[j]) == forall(q, 0, _k, not at(q, j)))',
        'forall(j, 0, self.num_lecturers, implies(not opt_is_none(worst_ranks[j]), '
        'forall(q, 0, _k, implies(at(q, j), pair_assignments_with_none[q].rank_lecturer <= opt_val(worst_ranks[j])))'
        ' and exists(q, 0, _k, at(q, j) and pair_assignments_with_none[q].rank_lecturer == opt_val(worst_ranks[j]))))'])},
    returns=('list', 'optint'),
    ensures=[('one-per-lecturer', 'len(result) == self.num_lecturers'),
             ('none-iff-no-assignee', 'forall(j, 0, self.num_lecturers, opt_is_none(result[j]) == (not someone_at_L(pair_assignments_with_none, j)))'),
             ('worst-rank', 'forall(j, 0, self.num_lecturers, implies(not opt_is_none(result[j]), '
                            'forall(q, 0, len(pair_assignments_with_none), implies(at(q, j), pair_assignments_with_none[q].rank_lecturer <= opt_val(result[j])))'
                            ' and exists(q, 0, len(pair_assignments_with_none), at(q, j) and pair_assignments_with_none[q].rank_lecturer == opt_val(result[j]))))')]),

 M + 'check_stability': dict(
    params=PAN,
    requires=NPRE + ['pairs_ok(self)', 'two_sided(self)', 'len(pair_assignments_with_none) == self.num_students',
                     ('two-sided-assignment', "forall(q, 0, len(pair_assignments_with_none), implies(pair_assignments_with_none[q] != None, has(pair_assignments_with_none[q], 'rank_lecturer')))")],
    defs={'blk': (['i', 'c'], 'blocking(self, pair_assignments_with_none, self.pairs[i][c], pair_assignments_with_none[i])')},
    loops={0: dict(invariant=['forall(i, 0, _k, forall(c, 0, len(self.pairs[i]), not blk(i, c)))']),
           1: dict(invariant=['forall(i, 0, _k0, forall(c, 0, len(self.pairs[i]), not blk(i, c)))',
                              'forall(c, 0, _k, not blk(_k0, c))'])},
    returns='bool',
    ensures=[('true-iff-no-blocking-pair', 'result == (not exists(i, 0, len(self.pairs), exists(c, 0, len(self.pairs[i]), blk(i, c))))')]),

 # text formatting helpers: modelled as pure functions of their arguments (their exact layout is covered by the bounded runs only)
 # the profile line: '<', one number per rank in rank order, '>' (blank-separated).  Callers see a pure text function of the profile (pure_text);
 # the body is verified here, so "the printed profile is _get_profile_string(profile)" composes with this postcondition by function identity.
 M + '_get_profile_string': dict(pure_text=True,
    params={'rank_allocations': ('list', 'int')}, locals={'profile_string': 'linetoks'},
    loops={0: dict(invariant=['len(profile_string) == 1 + _k', 'kind(profile_string[0]) == 3',
                              'forall(j, 0, _k, kind(profile_string[j + 1]) == 0 and value(profile_string[j + 1]) == rank_allocations[j])'])},
    returns=('joinstr', ' ', 'tok'),
    ensures=[('opening-bracket-one-entry-per-rank-closing-bracket', 'len(joined(result)) == len(rank_allocations) + 2 and kind(joined(result)[0]) == 3'
              ' and kind(joined(result)[len(rank_allocations) + 1]) == 4'),
             ('entry-j-is-the-number-of-rank-j+1', 'forall(j, 0, len(rank_allocations), kind(joined(result)[j + 1]) == 0 and value(joined(result)[j + 1]) == rank_allocations[j])')]),
 # C11 long format: one line per student, in student order: the student's matched pair (student, project, lecturer numbers) or "no assignment"
 M + '_get_detailed_student_info': dict(
    params=PA, requires=PRE, locals={'st_lines': ('list', 'strline')}, symbolic_repeat=True,
    defs={'A': ([], "tpl('s_{}: p_{} (l_{}) \\n')"), 'B': ([], "tpl('s_{} no assignment\\n')"),
          'shows': (['x', 'q'], 'line_tpl(x) == A() and line_arg(x, 0) == pair_assignments[q].studentID and line_arg(x, 1) == pair_assignments[q].projectID'
                                ' and line_arg(x, 2) == pair_assignments[q].lecturerID'),
          # after the first `upto` pairs: empty iff no pair of student i so far, else the line of the LAST such pair
          'is_empty': (['x'], 'line_tpl(x) == 0 and line_arg(x, 0) == 0 and line_arg(x, 1) == 0 and line_arg(x, 2) == 0'),
          'line_ok': (['x', 'i', 'upto'], '(is_empty(x) and forall(q, 0, upto, pair_assignments[q].student_index != i)) or '
                      'exists(q, 0, upto, pair_assignments[q].student_index == i and shows(x, q) and forall(q2, q + 1, upto, pair_assignments[q2].student_index != i))'),
          'final_ok': (['x', 'i'], '(line_tpl(x) == B() and line_arg(x, 0) == i + 1 and forall(q, 0, len(pair_assignments), pair_assignments[q].student_index != i)) or '
                       'exists(q, 0, len(pair_assignments), pair_assignments[q].student_index == i and shows(x, q)'
                       ' and forall(q2, q + 1, len(pair_assignments), pair_assignments[q2].student_index != i))')},
    loops={0: dict(invariant=['len(st_lines) == self.num_students', 'forall(i, 0, self.num_students, line_ok(st_lines[i], i, _k))']),
           1: dict(invariant=['len(st_lines) == self.num_students', 'forall(i, 0, _k, final_ok(st_lines[i], i))',
                              'forall(i, _k, self.num_students, line_ok(st_lines[i], i, len(pair_assignments)))'])},
    returns=('joinstr', '', 'strline'),
    ensures=[('one-line-per-student-in-student-order', 'len(joined(result)) == self.num_students'),
             ('each-line-shows-the-students-matched-pair-or-no-assignment', 'forall(i, 0, self.num_students, final_ok(joined(result)[i], i))')]),
 # C11 long format: one line per project in project order: p_<j> (l_<lecturer>): then the assigned students (or "no assignment"), then occupancy/capacity.
 # Listing view of the text (pyvc/models_text.py): blank-separated tokens; "3/5" is seen as the two numbers 3, 5; the line break is the token NL.
 M + '_get_detailed_project_info': dict(
    params=PA, requires=PRE + [('one-lecturer-and-capacity-per-project', 'len(self.proj_lecturers) == self.num_projects and len(self.proj_upper_quotas) == self.num_projects')],
    locals={'p_assignments': ('list', ('list', 'tok')), 'pr_lines': ('list', ('list', 'tok'))}, symbolic_repeat=True,
    defs={'cnt': (['j', 'upto'], 'Count(q, upto, pair_assignments[q].project_index == j)'),
          'is_s': (['t', 'q'], 'kind(t) == 5 and value(t) == pair_assignments[q].studentID'),
          # the first `upto` pairs: project j's string holds one token s_<student> per pair of project j (each such pair appears, nothing else does)
          'students_ok': (['L', 'j', 'upto'], 'len(L) == cnt(j, upto) and forall(t, 0, len(L), exists(q, 0, upto, pair_assignments[q].project_index == j and is_s(L[t], q)))'
                          ' and forall(q, 0, upto, implies(pair_assignments[q].project_index == j, exists(t, 0, len(L), is_s(L[t], q))))'),
          'n': ([], 'len(pair_assignments)'),
          'line_ok': (['L', 'j'], 'kind(L[0]) == 6 and value(L[0]) == j + 1 and kind(L[1]) == 7 and value(L[1]) == self.proj_lecturers[j]'
                      ' and ite(cnt(j, n()) == 0, len(L) == 7 and kind(L[2]) == 11 and kind(L[3]) == 12,'
                      '     len(L) == 5 + cnt(j, n()) and forall(t, 2, 2 + cnt(j, n()), exists(q, 0, n(), pair_assignments[q].project_index == j and is_s(L[t], q)))'
                      '     and forall(q, 0, n(), implies(pair_assignments[q].project_index == j, exists(t, 2, 2 + cnt(j, n()), is_s(L[t], q)))))'
                      ' and kind(L[len(L) - 3]) == 0 and value(L[len(L) - 3]) == cnt(j, n()) and kind(L[len(L) - 2]) == 0 and value(L[len(L) - 2]) == self.proj_upper_quotas[j]'
                      ' and kind(L[len(L) - 1]) == 13')},
    loops={0: dict(invariant=['len(p_assignments) == self.num_projects', 'len(p_num_assignments) == self.num_projects',
                              'forall(j, 0, self.num_projects, students_ok(p_assignments[j], j, _k) and p_num_assignments[j] == cnt(j, _k))']),
           1: dict(invariant=['len(pr_lines) == self.num_projects', 'forall(j, 0, _k, line_ok(pr_lines[j], j))', 'forall(j, _k, self.num_projects, len(pr_lines[j]) == 0)'])},
    # proof cut at the end of every iteration of the second loop: the project's own tokens follow the two header tokens (gives the witness t + 2)
    asserts={'loop1.body_end': [('the-assignee-tokens-follow-the-two-header-tokens', 'forall(t, 0, len(entry), kind(pr_lines[j][t + 2]) == kind(entry[t]) and value(pr_lines[j][t + 2]) == value(entry[t]), entry[t])')]},
    returns=('joinstr', '', ('list', 'tok')),
    ensures=[('one-line-per-project-in-project-order', 'len(joined(result)) == self.num_projects'),
             ('each-line-names-the-project-its-lecturer-exactly-its-assignees-and-occupancy-over-capacity', 'forall(j, 0, self.num_projects, line_ok(joined(result)[j], j))')]),
 # C11 long format: one line per lecturer in lecturer order: l_<k>: then for every assigned student s_<student> (p_<project>) (or "no assignment"),
 # then occupancy/capacity and the target in brackets.  Listing view as above; every assignee contributes two tokens.
 M + '_get_detailed_lecturer_info': dict(
    params=PA, requires=PRE, locals={'l_assignments': ('list', ('list', 'tok')), 'lec_lines': ('list', ('list', 'tok'))}, symbolic_repeat=True,
    defs={'cnt': (['k', 'upto'], 'Count(q, upto, pair_assignments[q].lecturer_index == k)'),
          'lect': (['q'], 'pair_assignments[q].lecturer_index'),
          'is_sp': (['L', 'u', 'q'], 'kind(L[u]) == 5 and value(L[u]) == pair_assignments[q].studentID and kind(L[u + 1]) == 10 and value(L[u + 1]) == pair_assignments[q].projectID'),
          # tokens off .. off + 2 * cnt of L: every token pair is the (student, project) of a pair of lecturer k among the first `upto` ...
          'only_pairs': (['L', 'off', 'k', 'upto'], 'forall(u, off, off + 2 * cnt(k, upto), implies((u - off) % 2 == 0, exists(q, 0, upto, lect(q) == k and is_sp(L, u, q))))'),
          # ... and every such pair has its token pair (property form, with an existential position)
          'all_pairs': (['L', 'off', 'k', 'upto'], 'forall(q, 0, upto, implies(lect(q) == k, exists(u, off, off + 2 * cnt(k, upto), (u - off) % 2 == 0 and is_sp(L, u, q))))'),
          # the same with the position made explicit: pos(q) = where pair q's tokens were appended in its lecturer's string (ghost history of the first loop)
          'pos': (['q'], "rec('pos')[q]"),
          'placed': (['L', 'off', 'k', 'upto'], 'forall(q, 0, upto, implies(lect(q) == k, 0 <= pos(q) and pos(q) % 2 == 0 and pos(q) + 1 < 2 * cnt(k, upto) and is_sp(L, off + pos(q), q)))'),
          'n': ([], 'len(pair_assignments)'),
          'tail_ok': (['L', 'k'], 'kind(L[len(L) - 4]) == 0 and value(L[len(L) - 4]) == cnt(k, n()) and kind(L[len(L) - 3]) == 0 and value(L[len(L) - 3]) == self.lec_upper_quotas[k]'
                      ' and kind(L[len(L) - 2]) == 15 and value(L[len(L) - 2]) == self.lec_targets[k] and kind(L[len(L) - 1]) == 13'),
          'head_ok': (['L', 'k'], 'kind(L[0]) == 14 and value(L[0]) == k + 1'),
          'line_placed': (['L', 'k'], 'head_ok(L, k) and tail_ok(L, k)'
                      ' and ite(cnt(k, n()) == 0, len(L) == 7 and kind(L[1]) == 11 and kind(L[2]) == 12, len(L) == 5 + 2 * cnt(k, n()) and only_pairs(L, 1, k, n()) and placed(L, 1, k, n()))'),
          'line_ok': (['L', 'k'], 'head_ok(L, k) and tail_ok(L, k)'
                      ' and ite(cnt(k, n()) == 0, len(L) == 7 and kind(L[1]) == 11 and kind(L[2]) == 12, len(L) == 5 + 2 * cnt(k, n()) and only_pairs(L, 1, k, n()) and all_pairs(L, 1, k, n()))')},
    loops={0: dict(record={'pos': ('int', 'len(l_assignments[pair.lecturer_index]) - 2')},
                   invariant=['len(l_assignments) == self.num_lecturers', 'len(l_num_assignments) == self.num_lecturers',
                              'forall(k, 0, self.num_lecturers, len(l_assignments[k]) == 2 * cnt(k, _k) and l_num_assignments[k] == cnt(k, _k))',
                              'forall(k, 0, self.num_lecturers, only_pairs(l_assignments[k], 0, k, _k))',
                              'forall(k, 0, self.num_lecturers, placed(l_assignments[k], 0, k, _k))']),
           1: dict(invariant=['len(lec_lines) == self.num_lecturers', 'forall(k, 0, _k, line_placed(lec_lines[k], k))', 'forall(k, _k, self.num_lecturers, len(lec_lines[k]) == 0)'])},
    asserts={'loop0.body_end': [('the-pair-just-visited-sits-at-the-end-of-its-lecturers-string',
                                 'len(l_assignments[pair.lecturer_index]) >= 2 and (len(l_assignments[pair.lecturer_index]) - 2) % 2 == 0'
                                 ' and kind(l_assignments[pair.lecturer_index][len(l_assignments[pair.lecturer_index]) - 2]) == 5'
                                 ' and value(l_assignments[pair.lecturer_index][len(l_assignments[pair.lecturer_index]) - 2]) == pair.studentID'
                                 ' and kind(l_assignments[pair.lecturer_index][len(l_assignments[pair.lecturer_index]) - 1]) == 10'
                                 ' and value(l_assignments[pair.lecturer_index][len(l_assignments[pair.lecturer_index]) - 1]) == pair.projectID')],
             'loop1.body_end': [('the-assignee-tokens-follow-the-header-token', 'forall(t, 0, len(entry), kind(lec_lines[k][t + 1]) == kind(entry[t]) and value(lec_lines[k][t + 1]) == value(entry[t]), entry[t])')]},
    returns=('joinstr', '', ('list', 'tok')),
    ensures=[('one-line-per-lecturer-in-lecturer-order', 'len(joined(result)) == self.num_lecturers'),
             ('each-line-names-the-lecturer-exactly-its-assignees-with-their-projects-occupancy-capacity-and-target', 'forall(k, 0, self.num_lecturers, line_ok(joined(result)[k], k))')]),

 # ---- reading the matching back from the solution values (C01)
 M + '_get_pair_assignments': dict(
    locals={'pair_assignments': ('list', 'ref')}, theory=['listsets'],
    requires=['sizes_ok(self)', 'pairs_ok(self)', 'has_vars(self.pairs)', ('reported-values-are-0-or-1', BINARY_VALUES)],
    defs={'chosen': (['r', 'rows', 'upto'], 'exists(i, 0, rows, exists(c, 0, len(self.pairs[i]), self.pairs[i][c] == r and solved(self.pairs[i][c].lp_var) != 0))'
                                             ' or exists(c, 0, upto, self.pairs[rows][c] == r and solved(self.pairs[rows][c].lp_var) != 0)'),
          # the reported value of the pair's variable (0 or 1)
          'X': (['i', 'c'], 'solved(self.pairs[i][c].lp_var)'),
          'PSP': (['j', 'rows', 'upto'], 'Sum(i, rows, Sum(c, len(self.pairs[i]), ite(self.pairs[i][c].project_index == j, X(i, c), 0)))'
                                         ' + Sum(c, upto, ite(self.pairs[rows][c].project_index == j, X(rows, c), 0))'),
          'PSL': (['k', 'rows', 'upto'], 'Sum(i, rows, Sum(c, len(self.pairs[i]), ite(self.pairs[i][c].lecturer_index == k, X(i, c), 0)))'
                                         ' + Sum(c, upto, ite(self.pairs[rows][c].lecturer_index == k, X(rows, c), 0))'),
          # a student's load is the sum of the values in that student's own row (every pair sits in its own student's row)
          'PSS': (['s', 'rows', 'upto'], 'ite(s < rows, solsum(self.pairs[s]), ite(s == rows, solsum_upto(self.pairs[rows], upto), 0))'),
          'R': ([], 'pair_assignments')},
    loops={0: dict(invariant=['forall(r, (ref(r) in elems(pair_assignments)) == chosen(ref(r), _k, 0))',
                              ('entries-are-pairs', 'forall(q, 0, len(R()), R()[q] != None)'),
                              ('project-loads', 'forall(j, 0, self.num_projects, loadP(R(), j) == PSP(j, _k, 0))'),
                              ('lecturer-loads', 'forall(k, 0, self.num_lecturers, loadL(R(), k) == PSL(k, _k, 0))'),
                              ('student-loads', 'forall(s, 0, self.num_students, loadS(R(), s) == PSS(s, _k, 0))')]),
           1: dict(invariant=['forall(r, (ref(r) in elems(pair_assignments)) == chosen(ref(r), _k0, _k))',
                              ('entries-are-pairs', 'forall(q, 0, len(R()), R()[q] != None)'),
                              ('project-loads', 'forall(j, 0, self.num_projects, loadP(R(), j) == PSP(j, _k0, _k))'),
                              ('lecturer-loads', 'forall(k, 0, self.num_lecturers, loadL(R(), k) == PSL(k, _k0, _k))'),
                              ('student-loads-earlier-rows', 'forall(s, 0, _k0, loadS(R(), s) == solsum(self.pairs[s]))'),
                              ('student-loads-this-row', 'loadS(R(), _k0) == solsum_upto(self.pairs[_k0], _k)'),
                              ('student-loads-later-rows', 'forall(s, _k0 + 1, self.num_students, loadS(R(), s) == 0)')])},
    use_lemmas={'loop1.body_end': [
        ('SUM/ext', {'f': 'loadP_terms(R(), j, len(prev(R())))', 'g': 'loadP_terms(prev(R()), j, len(prev(R())))', 'n': 'len(prev(R()))'}, 'forall:j'),
        ('SUM/ext', {'f': 'loadL_terms(R(), j, len(prev(R())))', 'g': 'loadL_terms(prev(R()), j, len(prev(R())))', 'n': 'len(prev(R()))'}, 'forall:j'),
        ('SUM/ext', {'f': 'loadS_terms(R(), j, len(prev(R())))', 'g': 'loadS_terms(prev(R()), j, len(prev(R())))', 'n': 'len(prev(R()))'}, 'forall:j')]},
    returns=('list', 'ref'),
    ensures=[('exactly-the-pairs-whose-variable-is-set', 'forall(r, (ref(r) in elems(result)) == chosen(ref(r), len(self.pairs), 0))'),
             ('entries-are-pairs', 'forall(q, 0, len(result), result[q] != None)'),
             # the loads of the returned list are the numbers of set variables among the pairs of that project / lecturer / student
             ('project-loads', 'forall(j, 0, self.num_projects, loadP(result, j) == PSP(j, len(self.pairs), 0))'),
             ('lecturer-loads', 'forall(k, 0, self.num_lecturers, loadL(result, k) == PSL(k, len(self.pairs), 0))'),
             ('student-loads', 'forall(s, 0, self.num_students, loadS(result, s) == PSS(s, len(self.pairs), 0))')]),

 M + '_get_pair_assignments_with_none': dict(
    locals={'pair_assignments': ('list', 'ref')},
    requires=['sizes_ok(self)', 'pairs_ok(self)', 'has_vars(self.pairs)', ('reported-values-are-0-or-1', BINARY_VALUES),
              ('at-most-one-set-variable-per-student', 'forall(s, 0, self.num_students, solsum(self.pairs[s]) <= 1)')],
    defs={'entry_ok': (['t'], 'pair_assignments[t] == None or (is_model_pair(self, pair_assignments[t]) and pair_assignments[t].student_index == t)'),
          'row': ([], 'self.pairs[_k0]')},
    loops={0: dict(invariant=[('one-entry-per-student-so-far', 'len(pair_assignments) == _k'), 'forall(t, 0, len(pair_assignments), entry_ok(t))']),
           1: dict(invariant=[('entries-so-far', 'len(pair_assignments) == _k0 + solsum_upto(row(), _k)'), ('added-iff-a-variable-was-set', 'added == (solsum_upto(row(), _k) > 0)'),
                              'solsum_upto(row(), _k) >= 0', 'forall(t, 0, len(pair_assignments), entry_ok(t))'])},
    use_lemmas={'loop1.body_end': [('SUM/prefix-le', {'f': 'sol_terms(row(), len(row()))', 'k': '_k1 + 1', 'n': 'len(row())'}, 'if-applicable')]},
    returns=('list', 'ref'),
    ensures=[('entry-i-is-student-i\'s-pair-or-None', 'forall(t, 0, len(result), result[t] == None or (is_model_pair(self, result[t]) and result[t].student_index == t))'),
             ('one-entry-per-student', 'len(result) == self.num_students')]),

 # ---- C14 / C11: what the result text shows.  status_code(self.pulp_status) is the code of the stored status (1 = Optimal, 0 = Not Solved).
 M + 'get_results': dict(
    params={'short_or_long': ('enumsym', 'Output_type'), 'stable_correctness': 'bool'},
    ghost={'pc': 'bool'},          # were project closures allowed (-pc)?  Supplied by the caller; only the validity statement uses it
    requires=['sizes_ok(self)', 'pairs_ok(self)', 'has_vars(self.pairs)', 'self.num_lecturers >= 1',
              'short_or_long == Output_type.SHORT or short_or_long == Output_type.LONG',
              ('stability-check-needs-two-sided-lists', 'implies(stable_correctness, two_sided(self))'),
              # T3 + the constraints (composition lemma C01/reported-matching-valid): when the stored status is Optimal the reported
              # values are 0/1 and, counted over the pairs of each student / project / lecturer, respect the quotas
              ('optimal-solution-is-binary', 'implies(code() == 1, ' + BINARY_VALUES + ')'),
              ('optimal-solution-respects-the-quotas', 'implies(code() == 1, forall(s, 0, self.num_students, XS(s) <= 1)'
               ' and forall(j, 0, self.num_projects, (pc and XP(j) == 0) or (self.proj_lower_quotas[j] <= XP(j) and XP(j) <= self.proj_upper_quotas[j]))'
               ' and forall(k, 0, self.num_lecturers, self.lec_lower_quotas[k] <= XL(k) and XL(k) <= self.lec_upper_quotas[k]))')],
    defs={'X': (['i', 'c'], 'solved(self.pairs[i][c].lp_var)'),
          'XP': (['j'], 'Sum(i, len(self.pairs), Sum(c, len(self.pairs[i]), ite(self.pairs[i][c].project_index == j, X(i, c), 0))) + Sum(c, 0, ite(self.pairs[len(self.pairs)][c].project_index == j, X(len(self.pairs), c), 0))'),
          'XL': (['k'], 'Sum(i, len(self.pairs), Sum(c, len(self.pairs[i]), ite(self.pairs[i][c].lecturer_index == k, X(i, c), 0))) + Sum(c, 0, ite(self.pairs[len(self.pairs)][c].lecturer_index == k, X(len(self.pairs), c), 0))'),
          'XS': (['s'], 'solsum(self.pairs[s])'),
          'code': ([], 'status_code(self.pulp_status)'),
          'elapsed': ([], 'self.time_after_solve - self.time_start'),
          'timeout': ([], 'self.time_limit != None and (code() == 0 or elapsed() > self.time_limit)'),
          'shows_matching': ([], "has_text(result, 'matching: ') or has_text(result, 'size: ') or has_text(result, 'cost: ') or has_text(result, 'profile: ') or has_text(result, 'Student_assignments')")},
    returns=('str', 'results'), late_locals={'pair_assignments': ('list', 'ref')},
    ensures=[('the-printed-matching-is-valid', 'implies(code() == 1 and not timeout(), valid_list(self, pair_assignments, pc))'),      # C01
             ('no-matching-unless-the-stored-status-is-Optimal', 'implies(code() != 1, not shows_matching())'),
             ('no-matching-on-timeout', 'implies(timeout(), not shows_matching())'),
             ('timeout-line-exactly-when-a-limit-was-exceeded-or-left-unsolved', "has_text(result, 'Timeout: ') == timeout()"),
             ('otherwise-the-stored-status-is-shown', "implies(not timeout(), after(result, 'pulp_status: ') == self.pulp_status)"),
             ('matching-and-statistics-when-Optimal', "implies(code() == 1 and not timeout(), has_text(result, 'matching: ') and has_text(result, 'size: '))"),
             # C11: the printed figures are the helper results for the list obtained from _get_pair_assignments()
             ('size-field', "implies(code() == 1 and not timeout(), printed_int(result, 'size: ') == self.num_students - Count(i, self.num_students, not exists(q, 0, len(pair_assignments), pair_assignments[q].student_index == i)))"),
             ('cost-field', "implies(code() == 1 and not timeout(), printed(result, 'cost: ')[0] == Sum(q, len(pair_assignments), pair_assignments[q].rank_student) and printed(result, 'cost: ')[1] == Sum(q, len(pair_assignments), rl(pair_assignments[q])))"),
             ('degree-field', "implies(code() == 1 and not timeout(), forall(q, 0, len(pair_assignments), pair_assignments[q].rank_student <= printed_int(result, 'degree: ')))")]),

 # ---- derived lists (C10): project_lists[j] / lecturer_lists[k] / rank_lists[r] hold exactly the pairs with that project / lecturer / rank,
 #      each as often as it occurs in the main structure (element-set view + sum identity left to the bounded stand-in)
 M + 'set_rank_lists': dict(
    theory=['listsets'],
    requires=['sizes_ok(self)', 'pairs_ok(self)'],
    defs={'inrow': (['r', 'i', 'upto'], 'exists(c, 0, upto, self.pairs[i][c] == r)'),
          'seen': (['r', 'rows', 'upto'], 'exists(i, 0, rows, inrow(r, i, len(self.pairs[i]))) or inrow(r, rows, upto)'),
          'LS': (['j'], 'wsum(self.rank_lists[j])'),
          'PS': (['j', 'rows', 'upto'], 'Sum(i, rows, Sum(c, len(self.pairs[i]), ite(self.pairs[i][c].rank_student == j + 1, W(self.pairs[i][c]), 0)))'
                                        ' + Sum(c, upto, ite(self.pairs[rows][c].rank_student == j + 1, W(self.pairs[rows][c]), 0))')},
    loops={0: dict(invariant=['is_max_rank(self, len(self.rank_lists))',
                              'forall(k, 0, len(self.rank_lists), forall(r, (ref(r) in elems(self.rank_lists[k])) == (seen(ref(r), _k, 0) and ref(r).rank_student == k + 1)))',
                              ('list-sums', 'forall(j, 0, len(self.rank_lists), LS(j) == PS(j, _k, 0))')]),
           1: dict(invariant=['is_max_rank(self, len(self.rank_lists))',
                              'forall(k, 0, len(self.rank_lists), forall(r, (ref(r) in elems(self.rank_lists[k])) == (seen(ref(r), _k0, _k) and ref(r).rank_student == k + 1)))',
                              ('list-sums', 'forall(j, 0, len(self.rank_lists), LS(j) == PS(j, _k0, _k))')])},
    use_lemmas={'loop1.body_end': [('SUM/ext', {'f': 'w_terms(self.rank_lists[j], len(prev(self.rank_lists)[j]))', 'g': 'w_terms(prev(self.rank_lists)[j], len(prev(self.rank_lists)[j]))',
                                                'n': 'len(prev(self.rank_lists)[j])'}, 'forall:j')]},
    modifies=['self.rank_lists'],
    ensures=[('one-list-per-rank', 'is_max_rank(self, len(self.rank_lists))'),
             ('rank-list-holds-exactly-the-pairs-of-that-rank', 'forall(k, 0, len(self.rank_lists), forall(r, (ref(r) in elems(self.rank_lists[k])) == (seen(ref(r), len(self.pairs), 0) and ref(r).rank_student == k + 1)))'),
             ('sum-over-each-list-is-the-sum-over-the-pairs-with-that-rank-for-every-weight', 'forall(j, 0, len(self.rank_lists), LS(j) == PS(j, len(self.pairs), 0))')]),
 M + 'set_project_lists': dict(
    theory=['listsets'],
    requires=['sizes_ok(self)', 'pairs_ok(self)'],
    defs={'inrow': (['r', 'i', 'upto'], 'exists(c, 0, upto, self.pairs[i][c] == r)'),
          'seen': (['r', 'rows', 'upto'], 'exists(i, 0, rows, inrow(r, i, len(self.pairs[i]))) or inrow(r, rows, upto)'),
          # sum identity, for an ARBITRARY weight W of pair objects: the weights on list j add up to the weights of the pairs with index j
          'LS': (['j'], 'wsum(self.project_lists[j])'),
          'PS': (['j', 'rows', 'upto'], 'Sum(i, rows, Sum(c, len(self.pairs[i]), ite(self.pairs[i][c].project_index == j, W(self.pairs[i][c]), 0)))'
                                        ' + Sum(c, upto, ite(self.pairs[rows][c].project_index == j, W(self.pairs[rows][c]), 0))')},

    loops={0: dict(invariant=['len(self.project_lists) == self.num_projects',
                              'forall(k, 0, self.num_projects, forall(r, (ref(r) in elems(self.project_lists[k])) == (seen(ref(r), _k, 0) and ref(r).project_index == k)))',
                              ('list-sums', 'forall(j, 0, self.num_projects, LS(j) == PS(j, _k, 0))')]),
           1: dict(invariant=['len(self.project_lists) == self.num_projects',
                              'forall(k, 0, self.num_projects, forall(r, (ref(r) in elems(self.project_lists[k])) == (seen(ref(r), _k0, _k) and ref(r).project_index == k)))',
                              ('list-sums', 'forall(j, 0, self.num_projects, LS(j) == PS(j, _k0, _k))')])},
    use_lemmas={'loop1.body_end': [('SUM/ext', {'f': 'w_terms(self.project_lists[j], len(prev(self.project_lists)[j]))', 'g': 'w_terms(prev(self.project_lists)[j], len(prev(self.project_lists)[j]))',
                                                'n': 'len(prev(self.project_lists)[j])'}, 'forall:j')]},
    modifies=['self.project_lists'],
    ensures=[('one-list-per-project', 'len(self.project_lists) == self.num_projects'),
             ('project-list-holds-exactly-the-pairs-of-that-project', 'forall(k, 0, self.num_projects, forall(r, (ref(r) in elems(self.project_lists[k])) == (seen(ref(r), len(self.pairs), 0) and ref(r).project_index == k)))'),
             ('sum-over-each-list-is-the-sum-over-the-pairs-with-that-index-for-every-weight', 'forall(j, 0, self.num_projects, LS(j) == PS(j, len(self.pairs), 0))')]),
 M + 'set_lecturer_lists': dict(
    theory=['listsets'],
    requires=['sizes_ok(self)', 'pairs_ok(self)'],
    defs={'inrow': (['r', 'i', 'upto'], 'exists(c, 0, upto, self.pairs[i][c] == r)'),
          'seen': (['r', 'rows', 'upto'], 'exists(i, 0, rows, inrow(r, i, len(self.pairs[i]))) or inrow(r, rows, upto)'),
          # sum identity, for an ARBITRARY weight W of pair objects: the weights on list j add up to the weights of the pairs with index j
          'LS': (['j'], 'wsum(self.lecturer_lists[j])'),
          'PS': (['j', 'rows', 'upto'], 'Sum(i, rows, Sum(c, len(self.pairs[i]), ite(self.pairs[i][c].lecturer_index == j, W(self.pairs[i][c]), 0)))'
                                        ' + Sum(c, upto, ite(self.pairs[rows][c].lecturer_index == j, W(self.pairs[rows][c]), 0))')},

    loops={0: dict(invariant=['len(self.lecturer_lists) == self.num_lecturers',
                              'forall(k, 0, self.num_lecturers, forall(r, (ref(r) in elems(self.lecturer_lists[k])) == (seen(ref(r), _k, 0) and ref(r).lecturer_index == k)))',
                              ('list-sums', 'forall(j, 0, self.num_lecturers, LS(j) == PS(j, _k, 0))')]),
           1: dict(invariant=['len(self.lecturer_lists) == self.num_lecturers',
                              'forall(k, 0, self.num_lecturers, forall(r, (ref(r) in elems(self.lecturer_lists[k])) == (seen(ref(r), _k0, _k) and ref(r).lecturer_index == k)))',
                              ('list-sums', 'forall(j, 0, self.num_lecturers, LS(j) == PS(j, _k0, _k))')])},
    use_lemmas={'loop1.body_end': [('SUM/ext', {'f': 'w_terms(self.lecturer_lists[j], len(prev(self.lecturer_lists)[j]))', 'g': 'w_terms(prev(self.lecturer_lists)[j], len(prev(self.lecturer_lists)[j]))',
                                                'n': 'len(prev(self.lecturer_lists)[j])'}, 'forall:j')]},
    modifies=['self.lecturer_lists'],
    ensures=[('one-list-per-lecturer', 'len(self.lecturer_lists) == self.num_lecturers'),
             ('lecturer-list-holds-exactly-the-pairs-of-that-lecturer', 'forall(k, 0, self.num_lecturers, forall(r, (ref(r) in elems(self.lecturer_lists[k])) == (seen(ref(r), len(self.pairs), 0) and ref(r).lecturer_index == k)))'),
             ('sum-over-each-list-is-the-sum-over-the-pairs-with-that-index-for-every-weight', 'forall(j, 0, self.num_lecturers, LS(j) == PS(j, len(self.pairs), 0))')]),

 # ---- C18: the debug getter is read-only and does not raise
 P + '__str__': dict(inline=True),
 M + '_pairs_string': dict(
    params={'pairs': ('list', ('list', 'ref'))}, pure=True,
    requires=["forall(i, 0, len(pairs), forall(c, 0, len(pairs[i]), pairs[i][c] != None and has(pairs[i][c], 'studentID') and has(pairs[i][c], 'projectID')"
              " and has(pairs[i][c], 'rank_student') and has(pairs[i][c], 'lecturerID')))"],
    loops={0: dict(invariant=[]), 1: dict(invariant=[])},
    returns=('str', 'pairs')),
 M + 'get_debug': dict(
    pure=True, self_fields={'project_closures': None},
    requires=['sizes_ok(self)', 'pairs_ok(self)'],          # NOT has_vars: after a brute-force solve the pairs carry no LP variable
    loops={0: dict(invariant=[]), 1: dict(invariant=[]), 2: dict(invariant=[])},
    returns=('str', 'debug')),

 # ---- C01 / C02 / C18: creation of the LP variables.  Every pair gets its binary decision variable, named by its student and
 #      project numbers (variable identity = name, T3/T5); with -stab also alpha / beta; the three per-lecturer families when a
 #      load-balancing criterion is requested, with the documented bounds; the closure variables with -pc.  EXACT: the domains
 #      below are all that is added to the program.
 P + 'pulp_setup': dict(inline=True),
 M + 'pulp_setup': dict(
    params={'prob': ('ext', 'LpProblem'), 'instance_options': ('dict', 'Instance_options', {'NUMAGENTS': 'int', 'TWOPL': 'bool', 'PC': 'bool'}),
            'extra_constraints': ('dict', 'Extra_constraints', {'STAB': 'bool'}), 'optimisation_options': ('list', 'crit')},
    self_fields={'project_closures': ('absent', ('list', 'var')), 'abs_lec_diff': ('absent', ('list', 'var')), 'lec_overload': ('absent', ('list', 'aff')), 'lec_underload': ('absent', ('list', 'aff'))},
    requires=['sizes_ok(self)', 'pairs_ok(self)'],
    defs={'STAB': ([], 'extra_constraints[Extra_constraints.STAB]'),
          'named': (['p'], "has(p, 'lp_var') and p.lp_var == pairvar(p.studentID, p.projectID)"
                           " and implies(STAB(), has(p, 'alpha_var') and has(p, 'beta_var') and p.alpha_var == alphavar(p.studentID, p.projectID) and p.beta_var == betavar(p.studentID, p.projectID))"),
          'dom': (['p'], '0 <= nu(p.lp_var) and nu(p.lp_var) <= 1 and implies(STAB(), 0 <= nu(p.alpha_var) and nu(p.alpha_var) <= 1 and 0 <= nu(p.beta_var) and nu(p.beta_var) <= 1)'),
          'row_named': (['i', 'upto'], 'forall(c, 0, upto, named(self.pairs[i][c]))'),
          'row_dom': (['i', 'upto'], 'forall(c, 0, upto, dom(self.pairs[i][c]))'),
          'needs_lb': (['upto'], 'exists(t, 0, upto, optimisation_options[t][0] == Optimisation_options.LOADMAXBAL'
                                 ' or optimisation_options[t][0] == Optimisation_options.LOADSUMBAL or optimisation_options[t][0] == Optimisation_options.MINCOSTLSB)'),
          'lb_dom': (['k'], "0 - self.lec_upper_quotas[k] <= nu(indexedvar('lec_overload_', k)) and nu(indexedvar('lec_overload_', k)) <= self.lec_upper_quotas[k]"
                            " and 0 - self.lec_upper_quotas[k] <= nu(indexedvar('lec_underload_', k)) and nu(indexedvar('lec_underload_', k)) <= self.lec_upper_quotas[k]"
                            " and 0 <= nu(indexedvar('abs_lec_diff_', k)) and nu(indexedvar('abs_lec_diff_', k)) <= self.lec_upper_quotas[k]"),
          'pc_dom': (['j'], "0 <= nu(indexedvar('project_closures_', j)) and nu(indexedvar('project_closures_', j)) <= 1"),
          'PAIRS': ([], 'forall(i, 0, self.num_students, row_dom(i, len(self.pairs[i])))')},
    loops={0: dict(invariant=['forall(i, 0, _k, row_named(i, len(self.pairs[i])))',
                              'feas() == (old(feas()) and forall(i, 0, _k, row_dom(i, len(self.pairs[i]))))']),
           1: dict(invariant=['forall(i, 0, _k0, row_named(i, len(self.pairs[i])))', 'row_named(_k0, _k)',
                              'feas() == (old(feas()) and forall(i, 0, _k0, row_dom(i, len(self.pairs[i]))) and row_dom(_k0, _k))']),
           2: dict(invariant=['load_balancing_variables_needed == needs_lb(_k)']),
           3: dict(invariant=['len(self.lec_overload) == _k', 'len(self.lec_underload) == _k', 'len(self.abs_lec_diff) == _k',
                              "forall(k, 0, _k, self.abs_lec_diff[k] == indexedvar('abs_lec_diff_', k))",
                              'feas() == (old(feas()) and PAIRS() and forall(k, 0, _k, lb_dom(k)))']),
           4: dict(invariant=['len(self.project_closures) == _k', "forall(j, 0, _k, self.project_closures[j] == indexedvar('project_closures_', j))",
                              'feas() == (old(feas()) and PAIRS() and implies(needs_lb(len(optimisation_options)), forall(k, 0, self.num_lecturers, lb_dom(k))) and forall(j, 0, _k, pc_dom(j)))'])},
    modifies=['self.project_closures', 'self.abs_lec_diff', 'self.lec_overload', 'self.lec_underload', 'heap:lp_var', 'heap:alpha_var', 'heap:beta_var', 'ghost:feas'],
    ensures=[('every-pair-has-its-variables', 'forall(i, 0, self.num_students, row_named(i, len(self.pairs[i])))'),
             ('load-balancing-variables-when-needed', 'implies(needs_lb(len(optimisation_options)), len(self.abs_lec_diff) == self.num_lecturers and len(self.lec_overload) == self.num_lecturers'
              " and len(self.lec_underload) == self.num_lecturers and forall(k, 0, self.num_lecturers, self.abs_lec_diff[k] == indexedvar('abs_lec_diff_', k)))"),
             ('closure-variables-with-pc', "implies(instance_options[Instance_options.PC], len(self.project_closures) == self.num_projects and forall(j, 0, self.num_projects, self.project_closures[j] == indexedvar('project_closures_', j)))"),
             ('exactly-the-variable-domains-are-added', 'feas() == (old(feas()) and PAIRS() and implies(needs_lb(len(optimisation_options)), forall(k, 0, self.num_lecturers, lb_dom(k)))'
              ' and implies(instance_options[Instance_options.PC], forall(j, 0, self.num_projects, pc_dom(j))))')]),
}
