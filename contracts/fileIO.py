"""Sidecar contracts for matchingproblems/solver/fileIO.py"""
M = 'fileIO:'
IMPORT_DEFS = {'NA': ([], 'instance_options[Instance_options.NUMAGENTS]'), 'TW': ([], 'instance_options[Instance_options.TWOPL]'),
          'NS': ([], 'value(line_toks(0)[0])'), 'NP': ([], 'value(line_toks(0)[1])'), 'NL': ([], 'ite(NA() == 2, value(line_toks(0)[1]), value(line_toks(0)[2]))'),
          'plain': (['i', 'q'], 'kind(line_toks(i)[q]) == 0'),
          # which section line number i belongs to
          'is_st': (['i'], '1 <= i and i <= NS()'), 'is_pr': (['i'], 'NS() + 1 <= i and i <= NS() + NP()'),
          'is_le': (['i'], 'NA() == 3 and NS() + NP() + 1 <= i and i <= NS() + NP() + NL()'),
          'bracketed_from': (['i', 'off'], 'forall(j, 0, len(line_toks(i)) - off, kind(line_toks(i)[j + off]) == spec_kind(line_ties(i), j, len(line_toks(i)) - off))'),
          'clamp': (['x', 'hi'], 'ite(x < 0, 0, ite(x > hi, hi, x))'),
          'n_st': (['k'], 'ite(k >= 1, clamp(k - 1, NS()), 0)'), 'n_pr': (['k'], 'ite(k >= 1, clamp(k - 1 - NS(), NP()), 0)'),
          'n_le': (['k'], 'ite(NA() == 3, ite(k >= 1, clamp(k - 1 - NS() - NP(), NL()), 0), n_pr(k))'),
          'pl': (['j'], 'NS() + 1 + j'), 'll': (['k'], 'NS() + NP() + 1 + k'),
          # the second-side list of lecturer (hospital) number a, and who is on it
          'off': ([], 'ite(NA() == 2, 3, 4)'), 'lecline': (['a'], 'ite(NA() == 2, NS() + a, NS() + NP() + a)'),
          'listed': (['a', 'b'], 'exists(t, 0, len(line_toks(lecline(a))) - off(), value(line_toks(lecline(a))[t + off()]) == b)', 'opaque'),
          'lect_of': (['pr'], 'ite(NA() == 2, pr, value(line_toks(NS() + pr)[3]))'),
          # row i of the model is the list on student line i+1: one fresh pair per token, numbers and dense ranks as written
          'pair_as_written': (['pr', 'i', 'c'], "pr != None and alloc(pr) and has(pr, 'studentID') and has(pr, 'projectID') and has(pr, 'student_index') and has(pr, 'project_index') and has(pr, 'rank_student')"
                              " and pr.studentID == i + 1 and pr.student_index == i and pr.projectID == value(line_toks(i + 1)[c + 1]) and pr.project_index == pr.projectID - 1 and pr.rank_student >= 1"),
          'row_as_written_of': (['M', 'i'], 'len(M.pairs[i]) == len(line_toks(i + 1)) - 1 and forall(c, 0, len(M.pairs[i]), pair_as_written(M.pairs[i][c], i, c))'
                             ' and implies(len(M.pairs[i]) > 0, M.pairs[i][0].rank_student == 1)'
                             ' and forall(c, 0, len(M.pairs[i]) - 1, M.pairs[i][c + 1].rank_student == M.pairs[i][c].rank_student + ite(line_ties(i + 1)[c] != 0, 0, 1))'),
          'row_as_written': (['i'], 'row_as_written_of(model, i)'),
          'lq_of': (['j'], 'value(line_toks(pl(j))[1])'), 'uq_of': (['j'], 'value(line_toks(pl(j))[2])')}
IMPORT_REQUIRES = [('two-or-three-agent-types', 'NA() == 2 or NA() == 3'),
              ('header-line', 'file_len() >= 1 and len(line_toks(0)) >= NA() and plain(0, 0) and plain(0, 1) and implies(NA() == 3, plain(0, 2)) and NS() >= 0 and NP() >= 0 and NL() >= 0'),
              ('student-lines', 'forall(i, 1, NS() + 1, i < file_len() and len(line_toks(i)) >= 1 and bracketed_from(i, 1))'),
              ('ranked-project-numbers-in-range', 'forall(i, 1, NS() + 1, forall(j, 1, len(line_toks(i)), 1 <= value(line_toks(i)[j]) and value(line_toks(i)[j]) <= NP(), line_toks(i)[j]), line_toks(i))'),
              ('project-lines', 'forall(i, NS() + 1, NS() + NP() + 1, i < file_len() and len(line_toks(i)) >= NA() + 1 and plain(i, 1) and plain(i, 2) and implies(NA() == 3, plain(i, 3))'
                                ' and implies(NA() == 2 and TW(), bracketed_from(i, 3)))'),
              ('project-lecturer-numbers-in-range', 'implies(NA() == 3, forall(i, NS() + 1, NS() + NP() + 1, 1 <= value(line_toks(i)[3]) and value(line_toks(i)[3]) <= NL()))'),
              # with second-side lists: whoever ranks a project is ranked by the lecturer (hospital) offering it (what C12 guarantees for generated files)
              ('second-side-lists-rank-those-who-rank-them', 'implies(TW(), forall(i, 1, NS() + 1, forall(j, 1, len(line_toks(i)), listed(lect_of(value(line_toks(i)[j])), i), line_toks(i)[j]), line_toks(i)))'),
              ('lecturer-lines', 'implies(NA() == 3, forall(i, NS() + NP() + 1, NS() + NP() + NL() + 1, i < file_len() and len(line_toks(i)) >= 4 and plain(i, 1) and plain(i, 2) and plain(i, 3)'
                                 ' and implies(TW(), bracketed_from(i, 4))))')]
CONTRACTS = {
 # ghost parameter `ties`: the tie decisions the text was written from (exists only in the specification)
 M + '_get_simple_pref_list_and_ranks': dict(
    params={'pref_list': ('list', 'tok')},
    ghost={'ties': ('list', 'int')},
    locals={'simp_pref_list': ('list', 'int'), 'simp_ranks': ('list', 'int')},
    requires=[('ties-cover', 'len(ties) >= len(pref_list)'),
              ('well-bracketed', 'forall(j, 0, len(pref_list), kind(pref_list[j]) == spec_kind(ties, j, len(pref_list)))')],
    loops={0: dict(invariant=[
        'len(simp_pref_list) == _k', 'len(simp_ranks) == _k',
        'in_tie == (_k > 0 and _k < len(pref_list) and ties[_k-1] != 0)',
        'implies(_k > 0, rank == simp_ranks[_k-1] + ite(_k < len(pref_list) and ties[_k-1] != 0, 0, 1))',
        'implies(_k == 0, rank == 1)', 'implies(_k > 0, simp_ranks[0] == 1)', 'rank >= 1', 'forall(j, 0, _k, simp_ranks[j] >= 1)',
        'forall(j, 0, _k - 1, simp_ranks[j+1] == simp_ranks[j] + ite(ties[j] != 0, 0, 1))',
        'forall(j, 0, _k, simp_pref_list[j] == value(pref_list[j]))'])},
    returns=('tuple', ('list', 'int'), ('list', 'int')),
    ensures=[('lengths', 'len(result0) == len(pref_list) and len(result1) == len(pref_list)'),
             ('values', 'forall(j, 0, len(pref_list), result0[j] == value(pref_list[j]))'),
             ('first-rank', 'implies(len(pref_list) > 0, result1[0] == 1)'), ('ranks-positive', 'forall(j, 0, len(pref_list), result1[j] >= 1)'),
             ('rank-step', 'forall(j, 0, len(pref_list) - 1, result1[j+1] == result1[j] + ite(ties[j] != 0, 0, 1))')]),

 # one student's row of Pair objects: fresh objects, in list order, with the file's project numbers and dense ranks
 M + '_create_pairs_row': dict(
    params={'model': ('ext', 'model'), 'st_prefs': ('list', 'tok'), 'st_num': 'int'},
    ghost={'ties': ('list', 'int')},
    locals={'pairs_row': ('list', 'ref')},
    call_ghost={'_get_simple_pref_list_and_ranks': {'ties': 'ties'}},
    requires=[('ties-cover', 'len(ties) >= len(st_prefs)'),
              ('well-bracketed', 'forall(j, 0, len(st_prefs), kind(st_prefs[j]) == spec_kind(ties, j, len(st_prefs)))')],
    defs={'row_ok': (['row', 'n'], "forall(c, 0, n, row[c] != None and alloc(row[c]) and not old(alloc(row[c]))"
                                   " and has(row[c], 'studentID') and has(row[c], 'projectID') and has(row[c], 'student_index') and has(row[c], 'project_index') and has(row[c], 'rank_student')"
                                   " and not has(row[c], 'lecturerID') and not has(row[c], 'rank_lecturer')"
                                   " and row[c].studentID == st_num and row[c].student_index == st_num - 1"
                                   " and row[c].projectID == value(st_prefs[c]) and row[c].project_index == value(st_prefs[c]) - 1"
                                   " and row[c].rank_student == simp_st_ranks[c])"),
          'distinct': (['row', 'n'], 'forall(a, 0, n, forall(b, 0, n, implies(row[a] == row[b], a == b)))'),
          'old_untouched': ([], "forall(r, implies(old(alloc(ref(r))), alloc(ref(r))"
                                " and has(ref(r), 'studentID') == old(has(ref(r), 'studentID')) and has(ref(r), 'rank_student') == old(has(ref(r), 'rank_student'))"
                                " and has(ref(r), 'projectID') == old(has(ref(r), 'projectID'))"
                                " and attr_eq_old(r)))")},
    loops={0: dict(invariant=['len(pairs_row) == _k', 'row_ok(pairs_row, _k)', 'distinct(pairs_row, _k)', 'old_untouched()'])},
    modifies=['heap:studentID', 'heap:projectID', 'heap:student_index', 'heap:project_index', 'heap:rank_student', 'ghost:alloc'],
    returns=('list', 'ref'),
    ensures=[('one-pair-per-entry', 'len(result) == len(st_prefs)'),
             ('fresh-distinct-objects', 'distinct(result, len(result)) and forall(c, 0, len(result), result[c] != None and alloc(result[c]) and not old(alloc(result[c])))'),
             ('student-project-and-rank', "forall(c, 0, len(result), result[c].studentID == st_num and result[c].projectID == value(st_prefs[c]) and result[c].student_index == st_num - 1"
                                          " and result[c].project_index == value(st_prefs[c]) - 1)"),
             ('attributes-set', "forall(c, 0, len(result), has(result[c], 'studentID') and has(result[c], 'projectID') and has(result[c], 'student_index') and has(result[c], 'project_index') and has(result[c], 'rank_student')"
                                " and not has(result[c], 'lecturerID') and not has(result[c], 'rank_lecturer'))"),
             ('ranks-positive', 'forall(c, 0, len(result), result[c].rank_student >= 1)'),
             ('ranks-are-dense-and-follow-the-ties', 'implies(len(result) > 0, result[0].rank_student == 1) and forall(c, 0, len(result) - 1, result[c+1].rank_student == result[c].rank_student + ite(ties[c] != 0, 0, 1))'),
             ('existing-objects-untouched', 'old_untouched()')]),

 M + '_set_lecturers': dict(
    params={'model': ('obj', 'Model'), 'project_lecturers': ('list', 'int')},
    requires=[('pairs-have-projects-in-range', "forall(i, 0, len(model.pairs), forall(c, 0, len(model.pairs[i]), model.pairs[i][c] != None and has(model.pairs[i][c], 'project_index')"
               " and 0 <= model.pairs[i][c].project_index and model.pairs[i][c].project_index < len(project_lecturers)))")],
    defs={'lect_ok': (['p'], "has(p, 'lecturerID') and has(p, 'lecturer_index') and p.lecturerID == project_lecturers[p.project_index] and p.lecturer_index == p.lecturerID - 1")},
    loops={0: dict(invariant=['forall(i, 0, _k, forall(c, 0, len(model.pairs[i]), lect_ok(model.pairs[i][c])))']),
           1: dict(invariant=['forall(i, 0, _k0, forall(c, 0, len(model.pairs[i]), lect_ok(model.pairs[i][c])))', 'forall(c, 0, _k, lect_ok(model.pairs[_k0][c]))'])},
    modifies=['heap:lecturerID', 'heap:lecturer_index'],
    ensures=[('every-pair-gets-the-lecturer-of-its-project', 'forall(i, 0, len(model.pairs), forall(c, 0, len(model.pairs[i]), lect_ok(model.pairs[i][c])))')]),

 # {(lecturer, student): rank} for one second-side list: every listed student once... with the dense rank of its tie group
 M + '_create_student_ranks': dict(
    params={'model': ('ext', 'model'), 'lec_prefs': ('list', 'tok'), 'lec_num': 'int'},
    ghost={'ties': ('list', 'int')}, late_locals={'simp_lec_ranks': ('list', 'int')},
    call_ghost={'_get_simple_pref_list_and_ranks': {'ties': 'ties'}},
    requires=[('ties-cover', 'len(ties) >= len(lec_prefs)'),
              ('well-bracketed', 'forall(j, 0, len(lec_prefs), kind(lec_prefs[j]) == spec_kind(ties, j, len(lec_prefs)))')],
    loops={0: dict(invariant=['forall(a, forall(b, map_has(student_ranks, a, b) == (a == lec_num and exists(j, 0, _k, simp_lec_prefs[j] == b))))',
                              'forall(j, 0, _k, exists(j2, j, _k, simp_lec_prefs[j2] == simp_lec_prefs[j] and map_get(student_ranks, lec_num, simp_lec_prefs[j]) == simp_lec_ranks[j2]))'])},
    returns=('map',),
    ensures=[('keys-are-exactly-the-listed-students-of-this-lecturer', 'forall(a, forall(b, map_has(result, a, b) == (a == lec_num and exists(j, 0, len(lec_prefs), value(lec_prefs[j]) == b))))'),
             ('rank-of-a-listed-student', 'forall(j, 0, len(lec_prefs), exists(j2, j, len(lec_prefs), value(lec_prefs[j2]) == value(lec_prefs[j]) and map_get(result, lec_num, value(lec_prefs[j])) == simp_lec_ranks[j2]))')]),

 M + '_set_lecturer_ranks': dict(
    params={'model': ('obj', 'Model'), 'lec_st_ranks': ('map',)},
    requires=[('every-pair-has-a-rank-entry', "forall(i, 0, len(model.pairs), forall(c, 0, len(model.pairs[i]), model.pairs[i][c] != None and has(model.pairs[i][c], 'lecturerID') and has(model.pairs[i][c], 'studentID')"
               " and map_has(lec_st_ranks, model.pairs[i][c].lecturerID, model.pairs[i][c].studentID)))")],
    defs={'rl_ok': (['p'], "has(p, 'rank_lecturer') and p.rank_lecturer == map_get(lec_st_ranks, p.lecturerID, p.studentID)")},
    loops={0: dict(invariant=['forall(i, 0, _k, forall(c, 0, len(model.pairs[i]), rl_ok(model.pairs[i][c])))']),
           1: dict(invariant=['forall(i, 0, _k0, forall(c, 0, len(model.pairs[i]), rl_ok(model.pairs[i][c])))', 'forall(c, 0, _k, rl_ok(model.pairs[_k0][c]))'])},
    modifies=['heap:rank_lecturer'],
    ensures=[('every-pair-gets-the-rank-of-its-student-on-its-lecturers-list', 'forall(i, 0, len(model.pairs), forall(c, 0, len(model.pairs[i]), rl_ok(model.pairs[i][c])))')]),

 # ---- C10: the section logic of the reader.  The file is a list of lines; line i has tokens line_toks(i) (T7/T8: a colon ends a field and is
 #      not part of a token).  Line 0 carries the counts; lines 1..NS the students; NS+1..NS+NP the projects (hospitals); with three agent
 #      types NS+NP+1..NS+NP+NL the lecturers; anything after that (blank line, parameter block) is ignored.  In a 2-agent file every
 #      hospital is one project offered by its own lecturer with the same lower / upper quota and target = upper quota.
 M + '_import_from_file': dict(
    params={'filename': ('str', 'filename'), 'instance_options': ('dict', 'Instance_options', {'NUMAGENTS': 'int', 'TWOPL': 'bool', 'PC': 'bool'})},
    locals={'project_lecturers': ('list', 'int')},
    defs=IMPORT_DEFS,
    requires=IMPORT_REQUIRES,
    call_ghost={'_create_pairs_row': {'ties': 'line_ties(index)'}, '_create_student_ranks': {'ties': 'line_ties(index)'}},
    asserts={'after_call:_create_student_ranks': [('keys-of-this-line-in-listing-form', 'forall(a, forall(b, map_has(result, a, b) == (a == ite(NA() == 2, index - NS(), index - NS() - NP()) and listed(a, b))))')],
             'loop0.exit': [('all-sections-read', 'n_st(file_len()) == NS() and n_pr(file_len()) == NP() and n_le(file_len()) == NL()'),
                            ('rank-keys-at-the-end', 'forall(a, forall(b, map_has(lecturer_student_ranks, a, b) == (TW() and 1 <= a and a <= NL() and listed(a, b)), map_has(lecturer_student_ranks, a, b)))')],
             'after_call:_set_lecturers': [('every-pair-has-the-lecturer-of-its-project-in-range', "forall(i, 0, NS(), forall(c, 0, len(model.pairs[i]), has(model.pairs[i][c], 'lecturerID')"
                  " and model.pairs[i][c].lecturerID == lect_of(model.pairs[i][c].projectID) and 1 <= model.pairs[i][c].lecturerID and model.pairs[i][c].lecturerID <= NL(), model.pairs[i][c]), model.pairs[i])"),
                 ('every-pair-is-listed-by-its-lecturer', 'implies(TW(), forall(i, 0, NS(), forall(c, 0, len(model.pairs[i]), listed(model.pairs[i][c].lecturerID, model.pairs[i][c].studentID), model.pairs[i][c]), model.pairs[i]))'),
                 ('every-pair-is-a-usable-object', "len(model.pairs) == NS() and forall(i, 0, NS(), forall(c, 0, len(model.pairs[i]), model.pairs[i][c] != None and has(model.pairs[i][c], 'studentID'), model.pairs[i][c]), model.pairs[i])"),
                 ('every-pair-has-a-rank-entry', 'implies(TW(), forall(i, 0, NS(), forall(c, 0, len(model.pairs[i]), map_has(lecturer_student_ranks, model.pairs[i][c].lecturerID, model.pairs[i][c].studentID), model.pairs[i][c]), model.pairs[i]))')]},
    loops={0: dict(invariant=[
        ('counts-after-the-header', 'implies(_k >= 1, model.num_students == NS() and model.num_projects == NP() and model.num_lecturers == NL())'),
        ('one-row-per-student-line-so-far', 'len(model.pairs) == n_st(_k)'),
        ('rows-as-written', 'forall(i, 0, n_st(_k), row_as_written(i))'),
        ('no-lecturer-rank-yet', "forall(i, 0, n_st(_k), forall(c, 0, len(model.pairs[i]), not has(model.pairs[i][c], 'rank_lecturer')))"),
        ('project-quotas-so-far', 'len(model.proj_lower_quotas) == n_pr(_k) and len(model.proj_upper_quotas) == n_pr(_k) and len(project_lecturers) == n_pr(_k)'),
        ('lecturer-quotas-so-far', 'len(model.lec_lower_quotas) == n_le(_k) and len(model.lec_targets) == n_le(_k) and len(model.lec_upper_quotas) == n_le(_k)'),
        ('rank-keys-so-far', 'forall(a, forall(b, map_has(lecturer_student_ranks, a, b) == (TW() and 1 <= a and a <= n_le(_k) and listed(a, b))))'),
        ('project-values', 'forall(j, 0, n_pr(_k), model.proj_lower_quotas[j] == value(line_toks(pl(j))[1]) and model.proj_upper_quotas[j] == value(line_toks(pl(j))[2])'
                           ' and project_lecturers[j] == ite(NA() == 2, j + 1, value(line_toks(pl(j))[3])))'),
        ('lecturer-values', 'forall(k, 0, n_le(_k), ite(NA() == 2, model.lec_lower_quotas[k] == value(line_toks(pl(k))[1]) and model.lec_targets[k] == value(line_toks(pl(k))[2]) and model.lec_upper_quotas[k] == value(line_toks(pl(k))[2]),'
                            ' model.lec_lower_quotas[k] == value(line_toks(ll(k))[1]) and model.lec_targets[k] == value(line_toks(ll(k))[2]) and model.lec_upper_quotas[k] == value(line_toks(ll(k))[3])))')])},
    returns=('obj', 'Model'),
    ensures=[('counts-from-the-header', 'result.num_students == NS() and result.num_projects == NP() and result.num_lecturers == NL()'),
             ('one-row-per-student', 'len(result.pairs) == NS()'),
             ('rows-in-list-order-with-the-written-numbers-and-dense-tie-ranks', 'forall(i, 0, NS(), row_as_written_of(result, i))'),
             ('project-quotas-and-lecturers-as-written', 'len(result.proj_lower_quotas) == NP() and len(result.proj_upper_quotas) == NP() and len(result.proj_lecturers) == NP()'
              ' and forall(j, 0, NP(), result.proj_lower_quotas[j] == lq_of(j) and result.proj_upper_quotas[j] == uq_of(j) and result.proj_lecturers[j] == ite(NA() == 2, j + 1, value(line_toks(pl(j))[3])))'),
             ('lecturer-quotas-as-written-or-embedded', 'len(result.lec_lower_quotas) == NL() and len(result.lec_targets) == NL() and len(result.lec_upper_quotas) == NL()'
              ' and forall(k, 0, NL(), ite(NA() == 2, result.lec_lower_quotas[k] == lq_of(k) and result.lec_targets[k] == uq_of(k) and result.lec_upper_quotas[k] == uq_of(k),'
              ' result.lec_lower_quotas[k] == value(line_toks(ll(k))[1]) and result.lec_targets[k] == value(line_toks(ll(k))[2]) and result.lec_upper_quotas[k] == value(line_toks(ll(k))[3])))'),
             ('every-pair-gets-the-lecturer-of-its-project', "forall(i, 0, NS(), forall(c, 0, len(result.pairs[i]), has(result.pairs[i][c], 'lecturerID') and result.pairs[i][c].lecturerID == lect_of(result.pairs[i][c].projectID)"
              " and result.pairs[i][c].lecturer_index == result.pairs[i][c].lecturerID - 1))"),
             ('the-model-is-well-formed', 'sizes_ok(result) and pairs_ok(result)'),
             ('lecturer-ranks-exactly-with-second-side-lists', "forall(i, 0, NS(), forall(c, 0, len(result.pairs[i]), has(result.pairs[i][c], 'rank_lecturer') == TW()))")]),
 # the complete reader: _import_from_file, then the three derived-list builders (their postconditions are import_model's)
 M + 'import_model': dict(
    params={'filename': ('str', 'filename'), 'instance_options': ('dict', 'Instance_options', {'NUMAGENTS': 'int', 'TWOPL': 'bool', 'PC': 'bool'})},
    theory=['listsets'],
    requires=IMPORT_REQUIRES, defs=IMPORT_DEFS,
    returns=('obj', 'Model'),
    ensures=[('the-model-is-well-formed', 'sizes_ok(result) and pairs_ok(result)'),
             ('one-derived-list-per-project-lecturer-and-rank', 'len(result.project_lists) == result.num_projects and len(result.lecturer_lists) == result.num_lecturers and is_max_rank(result, len(result.rank_lists))')]),
}
