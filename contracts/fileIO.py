"""Sidecar contracts for matchingproblems/solver/fileIO.py"""
M = 'fileIO:'
CONTRACTS = {
 # ghost parameter `ties`: the tie decisions the text was written from (exists only in the specification)
 M + '_get_simple_pref_list_and_ranks': dict(
    params={'pref_list': ('list', 'tok')},
    ghost={'ties': ('list', 'int')},
    locals={'simp_pref_list': ('list', 'int'), 'simp_ranks': ('list', 'int')},
    requires=[('ties-cover', 'len(ties) >= len(pref_list)'),
              ('well-bracketed', 'forall(j, 0, len(pref_list), kind(pref_list[j]) == spec_kind(ties, j, len(pref_list)))')],
    loops={0: dict(invariant=[
        'len(simp_pref_list) == _k', 'len(simp_ranks) == _k',
        'in_tie == (_k > 0 and _k < len(pref_list) and ties[_k-1] != 0)',
        'implies(_k > 0, rank == simp_ranks[_k-1] + ite(_k < len(pref_list) and ties[_k-1] != 0, 0, 1))',
        'implies(_k == 0, rank == 1)', 'implies(_k > 0, simp_ranks[0] == 1)',
        'forall(j, 0, _k - 1, simp_ranks[j+1] == simp_ranks[j] + ite(ties[j] != 0, 0, 1))',
        'forall(j, 0, _k, simp_pref_list[j] == value(pref_list[j]))'])},
    returns=('tuple', ('list', 'int'), ('list', 'int')),
    ensures=[('lengths', 'len(result0) == len(pref_list) and len(result1) == len(pref_list)'),
             ('values', 'forall(j, 0, len(pref_list), result0[j] == value(pref_list[j]))'),
             ('first-rank', 'implies(len(pref_list) > 0, result1[0] == 1)'),
             ('rank-step', 'forall(j, 0, len(pref_list) - 1, result1[j+1] == result1[j] + ite(ties[j] != 0, 0, 1))')]),
}
