"""Sidecar contracts for matchingproblems/solver/fileIO.py"""
M = 'fileIO:'
CONTRACTS = {
 # ghost parameter `ties`: the tie decisions the text was written from (exists only in the specification)
 M + '_get_simple_pref_list_and_ranks': dict(
    params={'pref_list': ('list', 'tok')},
    ghost={'ties': ('list', 'int')},
    locals={'simp_pref_list': ('list', 'int'), 'simp_ranks': ('list', 'int')},
    requires=[('ties-cover', 'len(ties) >= len(pref_list)'),
              ('well-bracketed', 'forall(j, 0, len(pref_list), kind(pref_list[j]) == spec_kind(ties, j, len(pref_list)))')],
    loops={0: dict(invariant=[
        'len(simp_pref_list) == _k', 'len(simp_ranks) == _k',
        'in_tie == (_k > 0 and _k < len(pref_list) and ties[_k-1] != 0)',
        'implies(_k > 0, rank == simp_ranks[_k-1] + ite(_k < len(pref_list) and ties[_k-1] != 0, 0, 1))',
        'implies(_k == 0, rank == 1)', 'implies(_k > 0, simp_ranks[0] == 1)',
        'forall(j, 0, _k - 1, simp_ranks[j+1] == simp_ranks[j] + ite(ties[j] != 0, 0, 1))',
        'forall(j, 0, _k, simp_pref_list[j] == value(pref_list[j]))'])},
    returns=('tuple', ('list', 'int'), ('list', 'int')),
    ensures=[('lengths', 'len(result0) == len(pref_list) and len(result1) == len(pref_list)'),
             ('values', 'forall(j, 0, len(pref_list), result0[j] == value(pref_list[j]))'),
             ('first-rank', 'implies(len(pref_list) > 0, result1[0] == 1)'),
             ('rank-step', 'forall(j, 0, len(pref_list) - 1, result1[j+1] == result1[j] + ite(ties[j] != 0, 0, 1))')]),

 # one student's row of Pair objects: fresh objects, in list order, with the file's project numbers and dense ranks
 M + '_create_pairs_row': dict(
    params={'model': ('ext', 'model'), 'st_prefs': ('list', 'tok'), 'st_num': 'int'},
    ghost={'ties': ('list', 'int')},
    locals={'pairs_row': ('list', 'ref')},
    call_ghost={'_get_simple_pref_list_and_ranks': {'ties': 'ties'}},
    requires=[('ties-cover', 'len(ties) >= len(st_prefs)'),
              ('well-bracketed', 'forall(j, 0, len(st_prefs), kind(st_prefs[j]) == spec_kind(ties, j, len(st_prefs)))')],
    defs={'row_ok': (['row', 'n'], "forall(c, 0, n, row[c] != None and alloc(row[c]) and not old(alloc(row[c]))"
                                   " and has(row[c], 'studentID') and has(row[c], 'projectID') and has(row[c], 'student_index') and has(row[c], 'project_index') and has(row[c], 'rank_student')"
                                   " and not has(row[c], 'lecturerID') and not has(row[c], 'rank_lecturer')"
                                   " and row[c].studentID == st_num and row[c].student_index == st_num - 1"
                                   " and row[c].projectID == value(st_prefs[c]) and row[c].project_index == value(st_prefs[c]) - 1"
                                   " and row[c].rank_student == simp_st_ranks[c])"),
          'distinct': (['row', 'n'], 'forall(a, 0, n, forall(b, 0, n, implies(row[a] == row[b], a == b)))'),
          'old_untouched': ([], "forall(r, implies(old(alloc(ref(r))), alloc(ref(r))"
                                " and has(ref(r), 'studentID') == old(has(ref(r), 'studentID')) and has(ref(r), 'rank_student') == old(has(ref(r), 'rank_student'))"
                                " and has(ref(r), 'projectID') == old(has(ref(r), 'projectID'))"
                                " and attr_eq_old(r)))")},
    loops={0: dict(invariant=['len(pairs_row) == _k', 'row_ok(pairs_row, _k)', 'distinct(pairs_row, _k)', 'old_untouched()'])},
    modifies=['heap:studentID', 'heap:projectID', 'heap:student_index', 'heap:project_index', 'heap:rank_student', 'ghost:alloc'],
    returns=('list', 'ref'),
    ensures=[('one-pair-per-entry', 'len(result) == len(st_prefs)'),
             ('fresh-distinct-objects', 'distinct(result, len(result)) and forall(c, 0, len(result), result[c] != None and alloc(result[c]) and not old(alloc(result[c])))'),
             ('student-project-and-rank', "forall(c, 0, len(result), result[c].studentID == st_num and result[c].projectID == value(st_prefs[c]) and result[c].student_index == st_num - 1"
                                          " and result[c].project_index == value(st_prefs[c]) - 1)"),
             ('ranks-are-dense-and-follow-the-ties', 'implies(len(result) > 0, result[0].rank_student == 1) and forall(c, 0, len(result) - 1, result[c+1].rank_student == result[c].rank_student + ite(ties[c] != 0, 0, 1))'),
             ('existing-objects-untouched', 'old_untouched()')]),

 M + '_set_lecturers': dict(
    params={'model': ('obj', 'Model'), 'project_lecturers': ('list', 'int')},
    requires=[('pairs-have-projects-in-range', "forall(i, 0, len(model.pairs), forall(c, 0, len(model.pairs[i]), model.pairs[i][c] != None and has(model.pairs[i][c], 'project_index')"
               " and 0 <= model.pairs[i][c].project_index and model.pairs[i][c].project_index < len(project_lecturers)))")],
    defs={'lect_ok': (['p'], "has(p, 'lecturerID') and has(p, 'lecturer_index') and p.lecturerID == project_lecturers[p.project_index] and p.lecturer_index == p.lecturerID - 1")},
    loops={0: dict(invariant=['forall(i, 0, _k, forall(c, 0, len(model.pairs[i]), lect_ok(model.pairs[i][c])))']),
           1: dict(invariant=['forall(i, 0, _k0, forall(c, 0, len(model.pairs[i]), lect_ok(model.pairs[i][c])))', 'forall(c, 0, _k, lect_ok(model.pairs[_k0][c]))'])},
    modifies=['heap:lecturerID', 'heap:lecturer_index'],
    ensures=[('every-pair-gets-the-lecturer-of-its-project', 'forall(i, 0, len(model.pairs), forall(c, 0, len(model.pairs[i]), lect_ok(model.pairs[i][c])))')]),

 # {(lecturer, student): rank} for one second-side list: every listed student once... with the dense rank of its tie group
 M + '_create_student_ranks': dict(
    params={'model': ('ext', 'model'), 'lec_prefs': ('list', 'tok'), 'lec_num': 'int'},
    ghost={'ties': ('list', 'int')},
    call_ghost={'_get_simple_pref_list_and_ranks': {'ties': 'ties'}},
    requires=[('ties-cover', 'len(ties) >= len(lec_prefs)'),
              ('well-bracketed', 'forall(j, 0, len(lec_prefs), kind(lec_prefs[j]) == spec_kind(ties, j, len(lec_prefs)))')],
    loops={0: dict(invariant=['forall(a, forall(b, map_has(student_ranks, a, b) == (a == lec_num and exists(j, 0, _k, simp_lec_prefs[j] == b))))',
                              'forall(j, 0, _k, exists(j2, j, _k, simp_lec_prefs[j2] == simp_lec_prefs[j] and map_get(student_ranks, lec_num, simp_lec_prefs[j]) == simp_lec_ranks[j2]))'])},
    returns=('map',),
    ensures=[('keys-are-exactly-the-listed-students-of-this-lecturer', 'forall(a, forall(b, map_has(result, a, b) == (a == lec_num and exists(j, 0, len(lec_prefs), value(lec_prefs[j]) == b))))'),
             ('rank-of-a-listed-student', 'forall(j, 0, len(lec_prefs), exists(j2, j, len(lec_prefs), value(lec_prefs[j2]) == value(lec_prefs[j]) and map_get(result, lec_num, value(lec_prefs[j])) == simp_lec_ranks[j2]))')]),

 M + '_set_lecturer_ranks': dict(
    params={'model': ('obj', 'Model'), 'lec_st_ranks': ('map',)},
    requires=[('every-pair-has-a-rank-entry', "forall(i, 0, len(model.pairs), forall(c, 0, len(model.pairs[i]), model.pairs[i][c] != None and has(model.pairs[i][c], 'lecturerID') and has(model.pairs[i][c], 'studentID')"
               " and map_has(lec_st_ranks, model.pairs[i][c].lecturerID, model.pairs[i][c].studentID)))")],
    defs={'rl_ok': (['p'], "has(p, 'rank_lecturer') and p.rank_lecturer == map_get(lec_st_ranks, p.lecturerID, p.studentID)")},
    loops={0: dict(invariant=['forall(i, 0, _k, forall(c, 0, len(model.pairs[i]), rl_ok(model.pairs[i][c])))']),
           1: dict(invariant=['forall(i, 0, _k0, forall(c, 0, len(model.pairs[i]), rl_ok(model.pairs[i][c])))', 'forall(c, 0, _k, rl_ok(model.pairs[_k0][c]))'])},
    modifies=['heap:rank_lecturer'],
    ensures=[('every-pair-gets-the-rank-of-its-student-on-its-lecturers-list', 'forall(i, 0, len(model.pairs), forall(c, 0, len(model.pairs[i]), rl_ok(model.pairs[i][c])))')]),
}
