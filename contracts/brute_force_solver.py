"""Sidecar contracts for matchingproblems/solver/brute_force_solver.py (C07)"""
M = 'brute_force_solver:Brute_force_solver.'
CONTRACTS = {
 M + '__init__': dict(inline=True),
 M + 'moregre': dict(
    params={'profile1': ('list', 'int'), 'profile2': ('list', 'int')}, self_fields={},
    requires=[('second-profile-covers-first', 'len(profile2) >= len(profile1)')],
    loops={0: dict(invariant=['forall(j, 0, _k, profile1[j] == profile2[j])'])},
    returns='bool',
    ensures=[('first-difference-is-an-increase', 'result == more_greedy(profile1, profile2)')]),
 M + 'moregen': dict(
    params={'profile1': ('list', 'int'), 'profile2': ('list', 'int')}, self_fields={},
    requires=[('second-profile-covers-first', 'len(profile2) >= len(profile1)')],
    loops={0: dict(invariant=['forall(j, len(profile1) - _k, len(profile1), profile1[j] == profile2[j])'])},
    returns='bool',
    ensures=[('last-difference-is-a-decrease', 'result == more_generous(profile1, profile2)')]),

 M + 'get_matching_pairs': dict(
    params={'matching': ('list', 'int')},
    locals={'matching_pairs': ('list', 'ref'), 'pair': 'ref'},
    requires=['sizes_ok(self.model)', 'pairs_ok(self.model)', 'len(matching) >= self.model.num_students'],
    defs={'found_ok': (['p', 'i'], 'p == None or (pair_ok(self.model, p) and p.student_index == i and p.projectID == matching[i] and is_model_pair(self.model, p))')},
    loops={0: dict(invariant=['len(matching_pairs) <= _k',
                              'len(matching_pairs) == Count(u, _k, matching[u] != 0)',
                              'forall(r, 0, len(matching_pairs), exists(i, 0, _k, matching[i] != 0 and found_ok(matching_pairs[r], i)))']),
           1: dict(invariant=['0 <= j and j <= len(pairs_row)',
                              'implies(not found, pair == None)',
                              'implies(found, pair != None and exists(c, 0, j, pairs_row[c] == pair) and pair.projectID == matched_proj)',
                              'implies(not found, forall(c, 0, j, pairs_row[c].projectID != matched_proj))'],
                   variant='len(pairs_row) - j + ite(found, 0, 1)')},
    returns=('list', 'ref'),
    ensures=[('one-entry-per-assigned-student', 'len(result) == Count(u, self.model.num_students, matching[u] != 0)'),
             ('entries', 'forall(r, 0, len(result), exists(i, 0, self.model.num_students, matching[i] != 0 and found_ok(result[r], i)))')]),

 M + 'is_valid': dict(
    params={'matching_pairs': ('list', 'ref')},
    requires=['sizes_ok(self.model)', ('entries-usable', 'forall(q, 0, len(matching_pairs), implies(matching_pairs[q] != None, pair_ok(self.model, matching_pairs[q])))')],
    loops={0: dict(invariant=['forall(q, 0, _k, matching_pairs[q] != None)']),
           1: dict(invariant=['len(st_num_allocations) == self.model.num_students', 'len(proj_num_allocations) == self.model.num_projects',
                              'len(lec_num_allocations) == self.model.num_lecturers',
                              'forall(s, 0, self.model.num_students, st_num_allocations[s] == loadS_upto(matching_pairs, s, _k))',
                              'forall(s, 0, self.model.num_projects, proj_num_allocations[s] == loadP_upto(matching_pairs, s, _k))',
                              'forall(s, 0, self.model.num_lecturers, lec_num_allocations[s] == loadL_upto(matching_pairs, s, _k))']),
           2: dict(invariant=['forall(s, 0, _k, st_num_allocations[s] <= 1)']),
           3: dict(invariant=['forall(j, 0, _k, (self.instance_options[Instance_options.PC] and proj_num_allocations[j] == 0) or '
                              '(self.model.proj_lower_quotas[j] <= proj_num_allocations[j] and proj_num_allocations[j] <= self.model.proj_upper_quotas[j]))']),
           4: dict(invariant=['forall(k, 0, _k, self.model.lec_lower_quotas[k] <= lec_num_allocations[k] and lec_num_allocations[k] <= self.model.lec_upper_quotas[k])'])},
    returns='bool',
    defs={'QUOTAS': (['L'], 'valid_list(self.model, L, self.instance_options[Instance_options.PC])', 'opaque')},
    ensures=[('valid-iff-every-project-found-and-quotas-respected', 'result == (all_found(matching_pairs) and QUOTAS(matching_pairs))'),
             # (a consequence of the line above, stated separately for callers that keep QUOTAS folded)
             ('a-valid-list-respects-lecturer-capacity', 'implies(result, forall(k, 0, self.model.num_lecturers, loadL(matching_pairs, k) <= self.model.lec_upper_quotas[k]))')]),

 # run: fold over the enumeration E[0..N) (T11).  rec('valid')[u] / rec('size')[u] are the specification-level validity and
 # size of the u-th enumerated assignment (ghost history).
 # run: fold over the enumeration E[0..N) (T11).  rec(x)[u] is the specification-level value of statistic x for the u-th
 # enumerated assignment (ghost history): validity, size, the two cost pairs, degree, profile, max / sum lecturer deviation.
 M + 'run': dict(
    requires=['sizes_ok(self.model)', 'pairs_ok(self.model)', 'self.model.num_lecturers >= 1',
              ('well-formed-targets', 'forall(k, 0, self.model.num_lecturers, 0 <= self.model.lec_targets[k] and self.model.lec_targets[k] <= self.model.lec_upper_quotas[k])')],
    defs={'PC': ([], 'self.instance_options[Instance_options.PC]'),
          'EQV': (['a', 'b'], 'not more_greedy(a, b) and not more_greedy(b, a)'),
          # the validity predicate of is_valid's contract, kept folded (an atom) in the fold invariants
          'QUOTAS': (['L'], 'valid_list(self.model, L, self.instance_options[Instance_options.PC])', 'opaque'),
          'VALID': (['L'], 'all_found(L) and QUOTAS(L)'),
          'V': (['u'], "rec('valid')[u]"), 'TOP': (['u'], "rec('valid')[u] and rec('size')[u] == self.optimal_size"),
          'lexlt': (['a0', 'a1', 'b0', 'b1'], 'a0 < b0 or (a0 == b0 and a1 < b1)'),
          'mp': ([], 'matching_pairs'),
          'SAME': (['a', 'b'], 'a == b'),
          'devk': (['L', 'k'], 'abs(loadL_upto(L, k, len(L)) - self.model.lec_targets[k])')},
    merge_ifs=True, sealed=('QUOTAS',),        # validity is an atom here; its meaning is is_valid's postcondition
    loops={0: dict(
        record={'valid': ('bool', 'VALID(matching_pairs)'),
                'size': ('int', 'len(matching_pairs)'),
                # the statistics computed by the (contracted) helpers for this assignment; only meaningful where valid
                'c0': ('int', 'cost[0]'), 'c1': ('int', 'cost[1]'), 's0': ('int', 'costsq[0]'), 's1': ('int', 'costsq[1]'),
                'deg': ('int', 'degree'), 'prof': (('list', 'int'), 'profile'), 'maxdev': ('int', 'max_lec_abs_diff'), 'sumdev': ('int', 'sum_lec_abs_diff')},
        havoc_as={'self.optimal_maxsizemincost': ('self.optimal_size == -1', 'int', ('tuple', 'int', 'int')),
                  'self.optimal_maxsizeminsqcost': ('self.optimal_size == -1', 'int', ('tuple', 'int', 'int'))},
        invariant=[('greedy-profile-has-one-entry-per-rank', 'is_max_rank(self.model, len(self.optimal_greedyprofile))'),
                   'self.optimal_size >= -1',
                   'implies(self.optimal_size >= 0, is_max_rank(self.model, len(self.optimal_generousmaxprofile)) and is_max_rank(self.model, len(self.optimal_greedymaxprofile)))',
                   ('recorded-profiles-have-one-entry-per-rank', "forall(u, 0, _k, implies(V(u), is_max_rank(self.model, len(rec('prof')[u]))))"),
                   ('infeasible-iff-none-valid', "(self.optimal_size == -1) == forall(u, 0, _k, not V(u))"),
                   ('size-upper-bound', "forall(u, 0, _k, implies(V(u), rec('size')[u] <= self.optimal_size))"),
                   ('size-attained', "implies(self.optimal_size >= 0, exists(u, 0, _k, TOP(u)))"),
                   # over maximum-size matchings: least cost pair, least degree, least squared-cost pair, most generous / greedy profile
                   ('mincost-lower-bound', "forall(u, 0, _k, implies(TOP(u), not lexlt(rec('c0')[u], rec('c1')[u], self.optimal_maxsizemincost[0], self.optimal_maxsizemincost[1])))"),
                   ('minsqcost-lower-bound', "forall(u, 0, _k, implies(TOP(u), not lexlt(rec('s0')[u], rec('s1')[u], self.optimal_maxsizeminsqcost[0], self.optimal_maxsizeminsqcost[1])))"),
                   ('mindegree-lower-bound', "forall(u, 0, _k, implies(TOP(u), self.optimal_maxsizemindegree <= rec('deg')[u]))"),
                   ('generous-none-better', "forall(u, 0, _k, implies(TOP(u), not more_generous(rec('prof')[u], self.optimal_generousmaxprofile)))"),
                   ('greedymax-none-better', "forall(u, 0, _k, implies(TOP(u), not more_greedy(rec('prof')[u], self.optimal_greedymaxprofile)))"),
                   # ... and each of those five is the value of some maximum-size matching (attained; profiles compared through the orders:
                   #     two profiles of one length neither of which is more generous / greedy than the other are equal)
                   ('mincost-attained', "implies(self.optimal_size >= 0, exists(u, 0, _k, TOP(u) and rec('c0')[u] == self.optimal_maxsizemincost[0] and rec('c1')[u] == self.optimal_maxsizemincost[1]))"),
                   ('minsqcost-attained', "implies(self.optimal_size >= 0, exists(u, 0, _k, TOP(u) and rec('s0')[u] == self.optimal_maxsizeminsqcost[0] and rec('s1')[u] == self.optimal_maxsizeminsqcost[1]))"),
                   ('mindegree-attained', "implies(self.optimal_size >= 0, exists(u, 0, _k, TOP(u) and rec('deg')[u] == self.optimal_maxsizemindegree))"),
                   ('generous-attained', "implies(self.optimal_size >= 0, exists(u, 0, _k, TOP(u) and SAME(rec('prof')[u], self.optimal_generousmaxprofile)))"),
                   ('greedymax-attained', "implies(self.optimal_size >= 0, exists(u, 0, _k, TOP(u) and SAME(rec('prof')[u], self.optimal_greedymaxprofile)))"),
                   # over all valid matchings: most greedy profile, least maximum / total lecturer deviation (starting from the initial values)
                   ('greedy-none-better', "forall(u, 0, _k, implies(V(u), not more_greedy(rec('prof')[u], self.optimal_greedyprofile)))"),
                   ('maxdev-lower-bound', "forall(u, 0, _k, implies(V(u), self.optimal_max_lec_abs_diff <= rec('maxdev')[u]))"),
                   ('sumdev-lower-bound', "forall(u, 0, _k, implies(V(u), self.optimal_sum_lec_abs_diff <= rec('sumdev')[u]))"),
                   # ... and each of those three is attained.  Until the first valid assignment the accumulators hold their initial values,
                   # which no valid assignment can exceed (zeros; the largest upper quota; that times the number of lecturers)
                   ('initial-values-until-first-valid', "implies(self.optimal_size == -1, forall(i, 0, len(self.optimal_greedyprofile), self.optimal_greedyprofile[i] == 0)"
                    " and forall(k, 0, self.model.num_lecturers, self.model.lec_upper_quotas[k] <= self.optimal_max_lec_abs_diff)"
                    " and self.optimal_sum_lec_abs_diff == self.optimal_max_lec_abs_diff * self.model.num_lecturers)"),
                   ('greedy-attained', "implies(self.optimal_size >= 0, exists(u, 0, _k, V(u) and EQV(rec('prof')[u], self.optimal_greedyprofile)))"),
                   ('maxdev-attained', "implies(self.optimal_size >= 0, exists(u, 0, _k, V(u) and rec('maxdev')[u] == self.optimal_max_lec_abs_diff))"),
                   ('sumdev-attained', "implies(self.optimal_size >= 0, exists(u, 0, _k, V(u) and rec('sumdev')[u] == self.optimal_sum_lec_abs_diff))"),
                   ])},
    # a sum of num_lecturers deviations, each at most M, is at most num_lecturers * M
    use_lemmas={'after_call:_get_sum_lec_abs_diff': [
        ('SUM/le', {'f': 'lam(k, self.model.num_lecturers, devk(matching_pairs, k))', 'g': 'lam(k, self.model.num_lecturers, self.optimal_max_lec_abs_diff)',
                    'n': 'self.model.num_lecturers'}, 'if-applicable'),
        ('SUM/const', {'n': 'self.model.num_lecturers', 'cst': 'self.optimal_max_lec_abs_diff'})]},
    # proof cuts: while no valid assignment has been seen the accumulators still dominate every valid assignment's value
    asserts={'after_call:_get_profile': [('profile-counts-are-non-negative', 'forall(i, 0, len(result), result[i] >= 0)'),
                                         ('initial-zero-profile-is-not-more-greedy', 'implies(self.optimal_size == -1, not more_greedy(self.optimal_greedyprofile, result))')],
             'after_call:_get_max_lec_abs_diff': [('initial-maximum-deviation-dominates', 'implies(self.optimal_size == -1, result <= self.optimal_max_lec_abs_diff)')],
             'after_call:_get_sum_lec_abs_diff': [('every-deviation-is-at-most-the-initial-maximum', 'implies(self.optimal_size == -1, forall(k, 0, self.model.num_lecturers, devk(matching_pairs, k) <= self.optimal_max_lec_abs_diff))'),
                                                  ('initial-total-deviation-dominates', 'implies(self.optimal_size == -1, result <= self.optimal_sum_lec_abs_diff)')]},
    modifies=['self.optimal_size', 'self.optimal_maxsizemincost', 'self.optimal_maxsizeminsqcost', 'self.optimal_maxsizemindegree',
              'self.optimal_generousmaxprofile', 'self.optimal_greedymaxprofile', 'self.optimal_greedyprofile',
              'self.optimal_max_lec_abs_diff', 'self.optimal_sum_lec_abs_diff'],
    ensures=[('profiles-have-one-entry-per-rank', 'is_max_rank(self.model, len(self.optimal_greedyprofile)) and implies(self.optimal_size >= 0, '
              'is_max_rank(self.model, len(self.optimal_generousmaxprofile)) and is_max_rank(self.model, len(self.optimal_greedymaxprofile)))'),
             ('infeasible-iff-no-valid-assignment', "(self.optimal_size == -1) == forall(u, 0, ENUM_len(), not V(u))"),
             ('optimal-size-is-the-maximum', "forall(u, 0, ENUM_len(), implies(V(u), rec('size')[u] <= self.optimal_size))"
              " and implies(self.optimal_size >= 0, exists(u, 0, ENUM_len(), TOP(u)))"),
             ('mincost-over-maximum-size', "forall(u, 0, ENUM_len(), implies(TOP(u), not lexlt(rec('c0')[u], rec('c1')[u], self.optimal_maxsizemincost[0], self.optimal_maxsizemincost[1])))"),
             ('mindegree-over-maximum-size', "forall(u, 0, ENUM_len(), implies(TOP(u), self.optimal_maxsizemindegree <= rec('deg')[u]))"),
             ('generous-and-greedy-over-maximum-size', "forall(u, 0, ENUM_len(), implies(TOP(u), not more_generous(rec('prof')[u], self.optimal_generousmaxprofile) and not more_greedy(rec('prof')[u], self.optimal_greedymaxprofile)))"),
             ('greedy-over-all-valid', "forall(u, 0, ENUM_len(), implies(V(u), not more_greedy(rec('prof')[u], self.optimal_greedyprofile)))"),
             ('deviations-over-all-valid', "forall(u, 0, ENUM_len(), implies(V(u), self.optimal_max_lec_abs_diff <= rec('maxdev')[u] and self.optimal_sum_lec_abs_diff <= rec('sumdev')[u]))"),
             ('minsqcost-over-maximum-size', "forall(u, 0, ENUM_len(), implies(TOP(u), not lexlt(rec('s0')[u], rec('s1')[u], self.optimal_maxsizeminsqcost[0], self.optimal_maxsizeminsqcost[1])))"),
             # every stored optimum is the value of an enumerated valid assignment (of maximum size where the statistic is taken over those)
             ('maximum-size-optima-are-attained', "implies(self.optimal_size >= 0,"
              " exists(u, 0, ENUM_len(), TOP(u) and rec('c0')[u] == self.optimal_maxsizemincost[0] and rec('c1')[u] == self.optimal_maxsizemincost[1])"
              " and exists(u, 0, ENUM_len(), TOP(u) and rec('s0')[u] == self.optimal_maxsizeminsqcost[0] and rec('s1')[u] == self.optimal_maxsizeminsqcost[1])"
              " and exists(u, 0, ENUM_len(), TOP(u) and rec('deg')[u] == self.optimal_maxsizemindegree)"
              " and exists(u, 0, ENUM_len(), TOP(u) and SAME(rec('prof')[u], self.optimal_generousmaxprofile))"
              " and exists(u, 0, ENUM_len(), TOP(u) and SAME(rec('prof')[u], self.optimal_greedymaxprofile)))"),
             ('all-valid-optima-are-attained', "implies(self.optimal_size >= 0,"
              " exists(u, 0, ENUM_len(), V(u) and EQV(rec('prof')[u], self.optimal_greedyprofile))"
              " and exists(u, 0, ENUM_len(), V(u) and rec('maxdev')[u] == self.optimal_max_lec_abs_diff)"
              " and exists(u, 0, ENUM_len(), V(u) and rec('sumdev')[u] == self.optimal_sum_lec_abs_diff))")]),
 M + 'get_results': dict(
    self_fields={'optimal_size': 'int', 'optimal_maxsizemincost': ('tuple', 'int', 'int'), 'optimal_maxsizeminsqcost': ('tuple', 'int', 'int'),
                 'optimal_maxsizemindegree': 'int', 'optimal_generousmaxprofile': ('list', 'int'), 'optimal_greedymaxprofile': ('list', 'int'),
                 'optimal_greedyprofile': ('list', 'int'), 'optimal_max_lec_abs_diff': 'int', 'optimal_sum_lec_abs_diff': 'int'},
    returns=('str', 'results'),
    ensures=[('infeasible-iff-no-valid-matching', "has_text(result, 'Infeasible') == (self.optimal_size == -1)"),
             ('no-statistics-when-infeasible', "implies(self.optimal_size == -1, not has_text(result, 'optimal_size'))"),
             ('size', "implies(self.optimal_size != -1, after(result, 'optimal_size: ') == str(self.optimal_size))"),
             ('cost', "implies(self.optimal_size != -1, after(result, 'optimal_maxsizemincost: ') == str(self.optimal_maxsizemincost))"),
             ('degree', "implies(self.optimal_size != -1, after(result, 'optimal_maxsizemindegree: ') == str(self.optimal_maxsizemindegree))"),
             ('sqcost', "implies(self.optimal_size != -1, after(result, 'optimal_maxsizeminsqcost: ') == str(self.optimal_maxsizeminsqcost))"),
             ('generous', "implies(self.optimal_size != -1, after(result, 'optimal_generousmaxprofile: ') == str(self.model._get_profile_string(self.optimal_generousmaxprofile)))"),
             ('greedymax', "implies(self.optimal_size != -1, after(result, 'optimal_greedymaxprofile: ') == str(self.model._get_profile_string(self.optimal_greedymaxprofile)))"),
             ('greedy', "implies(self.optimal_size != -1, after(result, 'optimal_greedyprofile: ') == str(self.model._get_profile_string(self.optimal_greedyprofile)))"),
             ('maxdev', "implies(self.optimal_size != -1, after(result, 'optimal_max_lec_abs_diff: ') == str(self.optimal_max_lec_abs_diff))"),
             ('sumdev', "implies(self.optimal_size != -1, after(result, 'optimal_sum_lec_abs_diff: ') == str(self.optimal_sum_lec_abs_diff))")]),
}
