"""Class schemas: fields of the singleton objects the verified functions work on, with their kinds."""
CLASSES = {}
