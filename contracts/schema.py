"""Class schemas: fields of the singleton objects the verified functions work on, with their kinds.
A field kind None means "not present at function entry" (created by the code)."""
REFS2 = ('list', ('list', 'ref'))
MODEL = {
    'num_students': 'int', 'num_projects': 'int', 'num_lecturers': 'int',
    'proj_lower_quotas': ('list', 'int'), 'proj_upper_quotas': ('list', 'int'),
    'lec_lower_quotas': ('list', 'int'), 'lec_targets': ('list', 'int'), 'lec_upper_quotas': ('list', 'int'),
    'proj_lecturers': ('list', 'int'),
    'pairs': REFS2, 'project_lists': REFS2, 'lecturer_lists': REFS2, 'rank_lists': REFS2,
    'time_start': 'real', 'time_after_model_creation': 'real', 'time_after_solve': 'real',     # datetimes as seconds (T12)
    'project_closures': ('list', 'var'), 'abs_lec_diff': ('list', 'var'), 'lec_overload': ('list', 'aff'), 'lec_underload': ('list', 'aff'),
    'info_string': ('str', 'info'), 'pulp_status': ('statusstr',), 'time_limit': 'optint',
    'OPTIMAL_PULP_STATUS': ('const_str', 'Optimal'), 'NOTSOLVED_PULP_STATUS': ('const_str', 'Not Solved'),
}
IOPT = ('dict', 'Instance_options', {'NUMAGENTS': 'int', 'TWOPL': 'bool', 'PC': 'bool'})
OPTIONS_PARSER = {'solver_options': ('dict', 'Solver_options', {'BRUTEFORCE': 'bool'}), 'instance_options': IOPT,
                  'extra_constraints': ('dict', 'Extra_constraints', {'STAB': 'bool'}), 'optimisation_options': ('list', 'crit')}
# the argument record the generators receive (what Instance_options_parser.parse returns; its postconditions are the preconditions below)
GENARGS = {'numberinstances': 'int', 'n1': 'int', 'n2': 'int', 'n3': 'int', 'minpreflistlength': 'int', 'maxpreflistlength': 'int',
           'ties1': 'real', 'ties2': 'real', 'skew': 'real', 'twopl': 'bool', 'lowerquotas': 'int', 'upperquotas': 'int',
           'lecturerlowerquotas': 'int', 'lecturertargets': 'int', 'lecturerupperquotas': 'int', 'outputdirectory': ('str', 'outdir')}
CLASSES = {
    'GenArgs': GENARGS, 'Generator_spa': {}, 'Generator_ha_sm_hr': {},
    'Options_parser': OPTIONS_PARSER,
    'Solver': {'options_parser': ('obj', 'Options_parser'), 'model': ('obj', 'Model')},
    'Model': MODEL,
    'LP_Solver': {'model': ('obj', 'Model'), 'prob': ('ext', 'LpProblem'), 'info_string': ('str', 'info'), 'solver': ('ext', 'cbc'),
                  'instance_options': IOPT, 'extra_constraints': ('dict', 'Extra_constraints', {'STAB': 'bool'}),
                  'optimisation_options': ('list', 'crit'), 'solve_performed': 'bool'},
    'Brute_force_solver': {'model': ('obj', 'Model'),
                           'optimal_generousmaxprofile': ('absent', ('list', 'int')), 'optimal_greedymaxprofile': ('absent', ('list', 'int')),
                           'optimal_greedyprofile': ('absent', ('list', 'int')),
                           'instance_options': ('dict', 'Instance_options', {'NUMAGENTS': 'int', 'TWOPL': 'bool', 'PC': 'bool'})},
}
