"""Sidecar contracts for matchingproblems/generator/instance_options_parser.py  (C15).
`parse` is verified once per problem type (-mp fixed per case, every other argument symbolic: absent or any value).
given('x') is the value argparse produced for destination x (None when absent; False for an absent flag)."""
M = 'instance_options_parser:Instance_options_parser.'

DEFS = {
 'has': (['x'], 'not (x == None)'),
 'tie_ok': (['t'], 'implies(has(t), 0 <= t and t <= 1)'),
 'lqv': ([], "ite(has(given('lowerquotas')), given('lowerquotas'), 0)"),
 'llqv': ([], "ite(has(given('lecturerlowerquotas')), given('lecturerlowerquotas'), 0)"),
 'ltv': ([], "ite(has(given('lecturertargets')), given('lecturertargets'), 0)"),
 # the bounds of the property statement; n2e = number of rankable agents, uqe = total upper quota
 'bounds': (['n2e', 'uqe'],
    "given('numberinstances') >= 1 and given('n1') >= 1 and n2e >= 1 and implies(has(given('n3')), given('n3') >= 1)"
    " and 1 <= given('minpreflistlength') and given('minpreflistlength') <= given('maxpreflistlength')"
    " and given('maxpreflistlength') <= n2e"
    " and tie_ok(given('ties1')) and tie_ok(given('ties2'))"
    " and lqv() >= 0 and llqv() >= 0 and uqe >= n2e and lqv() <= uqe"
    " and implies(has(given('lecturerupperquotas')), given('lecturerupperquotas') >= 1 and ltv() <= given('lecturerupperquotas'))"
    " and ltv() >= 0 and llqv() <= ltv()"),
 'no_lecturer_args': ([], "not has(given('n3')) and not has(given('lecturerlowerquotas'))"
                          " and not has(given('lecturerupperquotas')) and not has(given('lecturertargets'))"),
 'common_required': ([], "has(given('n1')) and has(given('minpreflistlength')) and has(given('maxpreflistlength'))"),
 # README: "HA instances require -n1 -n2 -pmin -pmax -uq" etc.; inapplicable parameters per type as in the property
 'legal_ha': ([], "common_required() and has(given('n2')) and has(given('upperquotas')) and not given('twopl')"
                  " and not has(given('ties2')) and no_lecturer_args() and bounds(given('n2'), given('upperquotas'))"),
 'legal_sm': ([], "common_required() and given('twopl') and not has(given('n2')) and not has(given('upperquotas'))"
                  " and not has(given('lowerquotas')) and no_lecturer_args() and bounds(given('n1'), given('n1'))"),
 'legal_hr': ([], "common_required() and given('twopl') and has(given('n2')) and has(given('upperquotas'))"
                  " and no_lecturer_args() and bounds(given('n2'), given('upperquotas'))"),
 'legal_spa': ([], "common_required() and has(given('n2')) and has(given('n3')) and has(given('upperquotas'))"
                   " and has(given('lecturerupperquotas')) and bounds(given('n2'), given('upperquotas'))"),
 'legal': ([], "ite(given('matchingproblem') == 'ha', legal_ha(), ite(given('matchingproblem') == 'sm', legal_sm(),"
               " ite(given('matchingproblem') == 'hr', legal_hr(), legal_spa())))"),
}

CONTRACTS = {
 M + 'parse': dict(
    params={'arguments': ('ext', 'argv')}, self_fields={},
    defs=DEFS, state_independent=('legal',),
    ensures=[('accepts-only-legal', 'legal()'),
             # what the generators rely on (C08 / C15 "produces the instances without error")
             ('counts', 'result.numberinstances >= 1 and result.n1 >= 1 and result.n2 >= 1'),
             ('sm-n2', "implies(given('matchingproblem') == 'sm', result.n2 == result.n1)"),
             ('list-lengths', '1 <= result.minpreflistlength and result.minpreflistlength <= result.maxpreflistlength and result.maxpreflistlength <= result.n2'),
             ('ties', '0 <= result.ties1 and result.ties1 <= 1 and 0 <= result.ties2 and result.ties2 <= 1'),
             ('quotas', '0 <= result.lowerquotas and result.lowerquotas <= result.upperquotas and result.upperquotas >= result.n2'),
             ('skew-default', "implies(not has(given('skew')), result.skew == 1)"),
             ('spa', "implies(given('matchingproblem') == 'spa', result.n3 >= 1 and 0 <= result.lecturerlowerquotas"
                     " and result.lecturerlowerquotas <= result.lecturertargets and result.lecturertargets <= result.lecturerupperquotas)")],
    exits=[('rejects-only-illegal', 'not legal()')]),
 M + 'check_bounds': dict(inline=True),
 M + 'check_required_and_banned': dict(inline=True),
 M + 'get_matching_problem': dict(inline=True),
 M + 'set_defaults': dict(inline=True),
}
