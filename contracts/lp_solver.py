"""Sidecar contracts for matchingproblems/solver/lp_solver.py.
feas() is the ghost conjunction of every variable domain and constraint added to the problem so far, a term over the ghost
valuation nu; an EXACT characterisation  feas() == (old(feas()) and ...)  gives both directions at once:
soundness (every solution of the program satisfies ...) and completeness (every ... is a solution)."""
M = 'lp_solver:LP_Solver.'
MODEL_OK = ['sizes_ok(self.model)', 'has_vars(self.model.pairs)', 'has_vars(self.model.project_lists)', 'has_vars(self.model.lecturer_lists)',
            'len(self.model.project_lists) == self.model.num_projects', 'len(self.model.lecturer_lists) == self.model.num_lecturers']
ULC = {
 'st_ok': (['i'], 'varsum(self.model.pairs[i]) <= 1'),
 'pr_ok': (['j', 'pc'], 'ite(pc, varsum(self.model.project_lists[j]) + nu(self.model.project_closures[j]) * self.model.proj_lower_quotas[j] >= self.model.proj_lower_quotas[j]'
                        ' and varsum(self.model.project_lists[j]) + nu(self.model.project_closures[j]) * self.model.proj_upper_quotas[j] <= self.model.proj_upper_quotas[j],'
                        ' self.model.proj_lower_quotas[j] <= varsum(self.model.project_lists[j]) and varsum(self.model.project_lists[j]) <= self.model.proj_upper_quotas[j])'),
 'le_ok': (['k'], 'self.model.lec_lower_quotas[k] <= varsum(self.model.lecturer_lists[k]) and varsum(self.model.lecturer_lists[k]) <= self.model.lec_upper_quotas[k]'),
 'PCO': ([], 'instance_options[Instance_options.PC]'),
}
CONTRACTS = {
 # C01: the basic matching constraints, exactly
 M + 'upper_lower_constraints': dict(
    params={'instance_options': ('dict', 'Instance_options', {'NUMAGENTS': 'int', 'TWOPL': 'bool', 'PC': 'bool'})},
    requires=MODEL_OK + ['implies(instance_options[Instance_options.PC], len(self.model.project_closures) == self.model.num_projects)'],
    defs=ULC,
    loops={0: dict(invariant=['feas() == (old(feas()) and forall(i, 0, _k, st_ok(i)))']),
           1: dict(invariant=['feas() == (old(feas()) and forall(i, 0, self.model.num_students, st_ok(i)) and forall(j, 0, _k, pr_ok(j, PCO())))']),
           2: dict(invariant=['feas() == (old(feas()) and forall(i, 0, self.model.num_students, st_ok(i)) and forall(j, 0, self.model.num_projects, pr_ok(j, PCO()))'
                              ' and forall(k, 0, _k, le_ok(k)))'])},
    modifies=['self.info_string', 'ghost:feas'],
    ensures=[('constraints-are-exactly-the-matching-constraints',
              'feas() == (old(feas()) and forall(i, 0, self.model.num_students, st_ok(i)) and forall(j, 0, self.model.num_projects, pr_ok(j, PCO()))'
              ' and forall(k, 0, self.model.num_lecturers, le_ok(k)))')]),

 # C05: the stability constraints, exactly (per acceptable pair p of student i: alpha, beta, gamma)
 M + 'stability_constraints': dict(
    requires=MODEL_OK + ['pairs_ok(self.model)', 'rows_sorted(self.model)', 'two_sided(self.model)', 'stab_vars(self.model.pairs)',
                         'lists_two_sided(self.model.lecturer_lists)'],
    defs={'wants': (['row', 'p'], '1 - Sum(q, len(row), ite(row[q].rank_student <= p.rank_student, nu(row[q].lp_var), 0))'),
          'lkcond': (['x', 'p'], 'x.rank_lecturer <= p.rank_lecturer and x.studentID != p.studentID'),
          'lksum': (['LLk', 'p', 'n'], 'Sum(q, n, ite(lkcond(LLk[q], p), nu(LLk[q].lp_var), 0))'),
          'pjsum': (['LLk', 'p', 'n'], 'Sum(q, n, ite(lkcond(LLk[q], p) and LLk[q].projectID == p.projectID, nu(LLk[q].lp_var), 0))'),
          'LLof': (['p'], 'self.model.lecturer_lists[p.lecturer_index]'),
          'stab_ok': (['row', 'p'],
                      '(0 - self.model.lec_upper_quotas[p.lecturer_index]) * nu(p.alpha_var) + lksum(LLof(p), p, len(LLof(p))) >= 0'
                      ' and (0 - self.model.proj_upper_quotas[p.project_index]) * nu(p.beta_var) + pjsum(LLof(p), p, len(LLof(p))) >= 0'
                      ' and wants(row, p) - nu(p.alpha_var) - nu(p.beta_var) <= 0'),
          'pair_stab_ok': (['i', 'c'], 'stab_ok(self.model.pairs[i], self.model.pairs[i][c])', 'opaque'),
          'row_ok': (['i', 'upto'], 'forall(c, 0, upto, pair_stab_ok(i, c))')},
    loops={0: dict(invariant=['feas() == (old(feas()) and forall(i, 0, _k, row_ok(i, len(self.model.pairs[i]))))']),
           1: dict(invariant=['feas() == (old(feas()) and forall(i, 0, _k0, row_ok(i, len(self.model.pairs[i]))) and row_ok(_k0, _k))']),
           2: dict(invariant=['0 <= index and index <= st_pref_length',
                              's_i_wants_to_move_exp == 1 - Sum(q, index, nu(pairs_row[q].lp_var))',
                              'implies(index < st_pref_length and index > 0, current_rank == pairs_row[index].rank_student)',
                              'implies(index == 0, current_rank == 1)',
                              'forall(q, 0, index, pairs_row[q].rank_student <= aim_rank)'],
                   variant='st_pref_length - index'),
           3: dict(invariant=['lk_sum_better_equal_exp == lksum(LLof(pair), pair, _k)',
                              'pj_sum_better_equal_exp == pjsum(LLof(pair), pair, _k)'])},
    use_lemmas={'loop2.exit': [('C05/prefix-filter', {'r': 'lam(q, st_pref_length, pairs_row[q].rank_student)',
                                                     'x': 'lam(q, st_pref_length, nu(pairs_row[q].lp_var))',
                                                     'n': 'st_pref_length', 'idx': 'index', 'aim': 'aim_rank'})]},
    asserts={'loop2.exit': [('wants-to-move-is-one-minus-the-variables-at-equal-or-better-rank', 's_i_wants_to_move_exp == wants(pairs_row, pair)')],
             'loop1.body_end': [('this-iteration-adds-exactly-the-three-constraints-of-this-pair', 'feas() == (prev(feas()) and pair_stab_ok(i, j))')]},
    modifies=['self.info_string', 'ghost:feas'],
    ensures=[('constraints-are-exactly-alpha-beta-gamma-per-acceptable-pair',
              'feas() == (old(feas()) and forall(i, 0, self.model.num_students, row_ok(i, len(self.model.pairs[i]))))')]),

 # ---- one optimisation step: set the objective, solve once, freeze the achieved value (C03 FREEZE, C04)
 M + 'perform_optimisation': dict(
    params={'objective_function': 'var', 'optimisation_type': ('enumsym', 'Optimisation_type')},
    requires=['optimisation_type == Optimisation_type.MAXIMISE or optimisation_type == Optimisation_type.MINIMISE'],
    modifies=['self.solve_performed', 'ghost:feas', 'ghost:val', 'ghost:status', 'ghost:hist', 'ghost:solves', 'ghost:objective', 'ghost:feas_at_solve'],
    ensures=[('solved-exactly-once', 'solves() == old(solves()) + 1 and hist(old(solves())) == status()'), ('earlier-history-unchanged', 'forall(u, implies(u < old(solves()), hist(u) == old(hist(u))))'), ('solve-recorded', 'implies(solves() > old(solves()), self.solve_performed) and implies(solves() == old(solves()), self.solve_performed == old(self.solve_performed))'),
             ('solved-the-problem-as-it-was', 'feas_at_solve() == old(feas())'),
             ('objective-is-the-given-variable-with-the-right-sense',
              'objective() == ite(optimisation_type == Optimisation_type.MAXIMISE, nu(objective_function), 0 - nu(objective_function))'),
             ('achieved-value-frozen', 'feas() == (old(feas()) and ite(optimisation_type == Optimisation_type.MAXIMISE, '
                                       'nu(objective_function) >= solved(objective_function), nu(objective_function) <= solved(objective_function)))')]),

 M + 'get_all_vars_at_rank': dict(
    params={'r': 'int'}, locals={'all_vars': ('list', 'var')},
    requires=['1 <= r', 'r <= len(self.model.rank_lists)', 'has_vars(self.model.rank_lists)'],
    loops={0: dict(invariant=['len(all_vars) == _k', 'forall(t, 0, _k, all_vars[t] == self.model.rank_lists[r - 1][t].lp_var)'])},
    returns=('list', 'var'),
    ensures=[('the-variables-of-rank-r', 'len(result) == len(self.model.rank_lists[r - 1]) and forall(t, 0, len(result), result[t] == self.model.rank_lists[r - 1][t].lp_var)')]),

 # ---- C03 generous: for ranks R, R-1, ..., cut: minimise the number of students at that rank, freezing each optimum
 M + 'optimisation_generous': dict(
    params={'additional_arguments': ('list', 'int')},
    requires=['has_vars(self.model.rank_lists)', 'self.model.num_students >= 0', 'has_vars(self.model.pairs)', 'len(self.model.pairs) == self.model.num_students', ('rank-list-sums-for-every-weight', 'forall(j, 0, len(self.model.rank_lists), wsum(self.model.rank_lists[j]) == RANKW(j))'), ('pair-variables-are-binary', 'implies(feas(), pairs_binary(self.model))'), ('partial-assignment-constraints-present', 'implies(feas(), rows_partial(self.model))')],
    defs={'RANKW': (['j'], 'Sum(i, len(self.model.pairs), Sum(c, len(self.model.pairs[i]), ite(self.model.pairs[i][c].rank_student == j + 1, W(self.model.pairs[i][c]), 0)))'), 'R': ([], 'len(self.model.rank_lists)'),
          'cut': ([], 'ite(len(additional_arguments) < 1, 1, additional_arguments[0])'),
          'N': ([], 'ite(R() > max(0, cut() - 1), R() - max(0, cut() - 1), 0)'),          # number of ranks visited
          'ov': (['r'], "indexedvar('obj_generous_rank_', r)"),
          # rank r (visited in descending order): objective variable bounded, linked to the number of students at rank r,
          # and frozen at the minimum found (ghost history indexed by rank)
          'stepr': (['r'], '0 <= nu(ov(r)) and nu(ov(r)) <= self.model.num_students'
                           ' and varsum(self.model.rank_lists[r - 1]) == nu(ov(r))'
                           " and nu(ov(r)) <= rec('bound')[r]"),
          'done': ([], 'solves() - old(solves())')},
    loops={0: dict(record={'bound': ('int', 'solved(obj)', 'r')},
                   invariant=['feas() == (old(feas()) and forall(r2, R() - done() + 1, R() + 1, stepr(r2)))',
                              'solves() == old(solves()) + _k',
                              ('no-solve-after-a-failure', 'forall(u, old(solves()), solves(), hist(u) == 1)'),
                              'forall(u, implies(u < old(solves()), hist(u) == old(hist(u))))',
                              'implies(_k == 0, status() == old(status()))', 'implies(_k > 0, hist(solves() - 1) == status())',
                              'implies(solves() > old(solves()), self.solve_performed) and implies(solves() == old(solves()), self.solve_performed == old(self.solve_performed))'])},
    # witness-in-bounds for the per-rank objective variables: the number of students at rank r is a sum over a rank list; the lists'
    # sum identity (required for EVERY weight, instantiated with the variable values) turns it into a filtered sum over all pairs,
    # which is at most the sum of the row sums, which is at most the number of students
    instantiate={'entry': [('rank-list-sums-for-every-weight', {'W': (['x'], 'nu(x.lp_var)')})]},
    use_lemmas={'entry': [('SUM/le', {'f': 'lam(c, len(self.model.pairs[i]), ite(self.model.pairs[i][c].rank_student == j + 1, nu(self.model.pairs[i][c].lp_var), 0))', 'g': 'var_terms(self.model.pairs[i], len(self.model.pairs[i]))', 'n': 'len(self.model.pairs[i])'}, 'forall:j,i'),
                          ('SUM/nonneg', {'f': 'lam(c, len(self.model.pairs[i]), ite(self.model.pairs[i][c].rank_student == j + 1, nu(self.model.pairs[i][c].lp_var), 0))', 'n': 'len(self.model.pairs[i])'}, 'forall:j,i'),
                          ('SUM/le', {'f': 'lam(i, len(self.model.pairs), Sum(c, len(self.model.pairs[i]), ite(self.model.pairs[i][c].rank_student == j + 1, nu(self.model.pairs[i][c].lp_var), 0)))', 'g': 'lam(i, len(self.model.pairs), varsum(self.model.pairs[i]))', 'n': 'len(self.model.pairs)'}, 'forall:j'),
                          ('SUM/nonneg', {'f': 'lam(i, len(self.model.pairs), Sum(c, len(self.model.pairs[i]), ite(self.model.pairs[i][c].rank_student == j + 1, nu(self.model.pairs[i][c].lp_var), 0)))', 'n': 'len(self.model.pairs)'}, 'forall:j'),
                          ('C02/size-bound', {'r': 'lam(i, len(self.model.pairs), varsum(self.model.pairs[i]))', 'n': 'len(self.model.pairs)'}, 'if-applicable')],
                'after_call:get_all_vars_at_rank': [('SUM/ext', {'f': 'lam(q, len(result), nu(result[q]))',
                                                                 'g': 'lam(q, len(result), nu(self.model.rank_lists[r - 1][q].lp_var))',
                                                                 'n': 'len(result)'})]},
    modifies=['self.info_string', 'self.solve_performed', 'ghost:feas', 'ghost:val', 'ghost:status', 'ghost:hist', 'ghost:solves', 'ghost:objective', 'ghost:feas_at_solve'],
    ensures=[('ranks-R-down-to-cut-each-minimised-and-frozen', "feas() == (old(feas()) and forall(r2, R() - done() + 1, R() + 1, stepr(r2)))"),
             ('at-most-one-solve-per-visited-rank', 'old(solves()) <= solves() and solves() <= old(solves()) + N()'),
             ('all-ranks-visited-unless-a-solve-failed', 'implies(status() == 1 or solves() == old(solves()), solves() == old(solves()) + N())'),
             ('only-the-last-solve-may-have-failed', 'forall(u, old(solves()), solves() - 1, hist(u) == 1)'),
             ('status-is-that-of-the-last-solve', 'implies(solves() > old(solves()), hist(solves() - 1) == status()) and implies(solves() == old(solves()), status() == old(status()))'),
             ('every-feasible-rank-count-fits-the-objective-variables', 'implies(old(feas()), forall(j, 0, R(), 0 <= varsum(self.model.rank_lists[j]) and varsum(self.model.rank_lists[j]) <= self.model.num_students))'),
             ('earlier-history-unchanged', 'forall(u, implies(u < old(solves()), hist(u) == old(hist(u))))'), ('solve-recorded', 'implies(solves() > old(solves()), self.solve_performed) and implies(solves() == old(solves()), self.solve_performed == old(self.solve_performed))')]),

 # ---- C03 greedy: for ranks 1, 2, ..., min(cut, R): maximise the number of students at that rank, freezing each optimum
 M + 'optimisation_greedy': dict(
    params={'additional_arguments': ('list', 'int')},
    requires=['has_vars(self.model.rank_lists)', 'self.model.num_students >= 0', 'has_vars(self.model.pairs)', 'len(self.model.pairs) == self.model.num_students', ('rank-list-sums-for-every-weight', 'forall(j, 0, len(self.model.rank_lists), wsum(self.model.rank_lists[j]) == RANKW(j))'), ('pair-variables-are-binary', 'implies(feas(), pairs_binary(self.model))'), ('partial-assignment-constraints-present', 'implies(feas(), rows_partial(self.model))')],
    defs={'RANKW': (['j'], 'Sum(i, len(self.model.pairs), Sum(c, len(self.model.pairs[i]), ite(self.model.pairs[i][c].rank_student == j + 1, W(self.model.pairs[i][c]), 0)))'), 'R': ([], 'len(self.model.rank_lists)'),
          'cut': ([], 'ite(len(additional_arguments) < 1, R(), additional_arguments[0])'),
          'N': ([], 'max(0, min(cut() + 1, R() + 1) - 1)'),
          'ov': (['r'], "indexedvar('obj_greedy_rank_', r)"),
          'stepr': (['r'], '0 <= nu(ov(r)) and nu(ov(r)) <= self.model.num_students'
                           ' and varsum(self.model.rank_lists[r - 1]) == nu(ov(r))'
                           " and nu(ov(r)) >= rec('bound')[r]"),
          'done': ([], 'solves() - old(solves())')},
    loops={0: dict(record={'bound': ('int', 'solved(obj)', 'r')},
                   invariant=['feas() == (old(feas()) and forall(r2, 1, done() + 1, stepr(r2)))',
                              'solves() == old(solves()) + _k',
                              ('no-solve-after-a-failure', 'forall(u, old(solves()), solves(), hist(u) == 1)'),
                              'forall(u, implies(u < old(solves()), hist(u) == old(hist(u))))',
                              'implies(_k == 0, status() == old(status()))', 'implies(_k > 0, hist(solves() - 1) == status())',
                              'implies(solves() > old(solves()), self.solve_performed) and implies(solves() == old(solves()), self.solve_performed == old(self.solve_performed))'])},
    # witness-in-bounds for the per-rank objective variables: the number of students at rank r is a sum over a rank list; the lists'
    # sum identity (required for EVERY weight, instantiated with the variable values) turns it into a filtered sum over all pairs,
    # which is at most the sum of the row sums, which is at most the number of students
    instantiate={'entry': [('rank-list-sums-for-every-weight', {'W': (['x'], 'nu(x.lp_var)')})]},
    use_lemmas={'entry': [('SUM/le', {'f': 'lam(c, len(self.model.pairs[i]), ite(self.model.pairs[i][c].rank_student == j + 1, nu(self.model.pairs[i][c].lp_var), 0))', 'g': 'var_terms(self.model.pairs[i], len(self.model.pairs[i]))', 'n': 'len(self.model.pairs[i])'}, 'forall:j,i'),
                          ('SUM/nonneg', {'f': 'lam(c, len(self.model.pairs[i]), ite(self.model.pairs[i][c].rank_student == j + 1, nu(self.model.pairs[i][c].lp_var), 0))', 'n': 'len(self.model.pairs[i])'}, 'forall:j,i'),
                          ('SUM/le', {'f': 'lam(i, len(self.model.pairs), Sum(c, len(self.model.pairs[i]), ite(self.model.pairs[i][c].rank_student == j + 1, nu(self.model.pairs[i][c].lp_var), 0)))', 'g': 'lam(i, len(self.model.pairs), varsum(self.model.pairs[i]))', 'n': 'len(self.model.pairs)'}, 'forall:j'),
                          ('SUM/nonneg', {'f': 'lam(i, len(self.model.pairs), Sum(c, len(self.model.pairs[i]), ite(self.model.pairs[i][c].rank_student == j + 1, nu(self.model.pairs[i][c].lp_var), 0)))', 'n': 'len(self.model.pairs)'}, 'forall:j'),
                          ('C02/size-bound', {'r': 'lam(i, len(self.model.pairs), varsum(self.model.pairs[i]))', 'n': 'len(self.model.pairs)'}, 'if-applicable')],
                'after_call:get_all_vars_at_rank': [('SUM/ext', {'f': 'lam(q, len(result), nu(result[q]))',
                                                                 'g': 'lam(q, len(result), nu(self.model.rank_lists[r - 1][q].lp_var))',
                                                                 'n': 'len(result)'})]},
    modifies=['self.info_string', 'self.solve_performed', 'ghost:feas', 'ghost:val', 'ghost:status', 'ghost:hist', 'ghost:solves', 'ghost:objective', 'ghost:feas_at_solve'],
    ensures=[('ranks-1-up-to-cut-each-maximised-and-frozen', "feas() == (old(feas()) and forall(r2, 1, done() + 1, stepr(r2)))"),
             ('at-most-one-solve-per-visited-rank', 'old(solves()) <= solves() and solves() <= old(solves()) + N()'),
             ('all-ranks-visited-unless-a-solve-failed', 'implies(status() == 1 or solves() == old(solves()), solves() == old(solves()) + N())'),
             ('only-the-last-solve-may-have-failed', 'forall(u, old(solves()), solves() - 1, hist(u) == 1)'),
             ('status-is-that-of-the-last-solve', 'implies(solves() > old(solves()), hist(solves() - 1) == status()) and implies(solves() == old(solves()), status() == old(status()))'),
             ('every-feasible-rank-count-fits-the-objective-variables', 'implies(old(feas()), forall(j, 0, R(), 0 <= varsum(self.model.rank_lists[j]) and varsum(self.model.rank_lists[j]) <= self.model.num_students))'),
             ('earlier-history-unchanged', 'forall(u, implies(u < old(solves()), hist(u) == old(hist(u))))'), ('solve-recorded', 'implies(solves() > old(solves()), self.solve_performed) and implies(solves() == old(solves()), self.solve_performed == old(self.solve_performed))')]),

 # all decision variables, row after row: the sum of their values is the sum of the row sums (= size of the matching)
 M + 'get_all_pairs_vars': dict(
    locals={'all_vars': ('list', 'var')},
    requires=['has_vars(self.model.pairs)'],
    defs={'total': (['L'], 'Sum(q, len(L), nu(L[q]))'),
          'rows_total': (['n'], 'Sum(i, n, varsum(self.model.pairs[i]))')},
    loops={0: dict(invariant=['total(all_vars) == rows_total(_k)']),
           1: dict(invariant=['total(all_vars) == rows_total(_k0) + Sum(c, _k, nu(pairs_row[c].lp_var))'])},
    use_lemmas={'loop1.body_end': [('SUM/ext', {'f': 'lam(q, len(prev(all_vars)), nu(all_vars[q]))', 'g': 'lam(q, len(prev(all_vars)), nu(prev(all_vars)[q]))',
                                                'n': 'len(prev(all_vars))'})]},
    returns=('list', 'var'),
    ensures=[('sum-of-all-variables-is-the-sum-of-the-row-sums', 'Sum(q, len(result), nu(result[q])) == Sum(i, len(self.model.pairs), varsum(self.model.pairs[i]))')]),

 M + 'optimisation_maxsize': dict(
    requires=['has_vars(self.model.pairs)', "not used('obj_maxsize')", 'len(self.model.pairs) == self.model.num_students', 'self.model.num_students >= 0', ('partial-assignment-constraints-present', 'implies(feas(), rows_partial(self.model))')],
    use_lemmas={'return': [('C02/size-bound', {'r': 'lam(i, len(self.model.pairs), varsum(self.model.pairs[i]))', 'n': 'len(self.model.pairs)'}, 'if-applicable')]},
    defs={'o': ([], "namedvar('obj_maxsize')"), 'size': ([], 'Sum(i, len(self.model.pairs), varsum(self.model.pairs[i]))')},
    modifies=['self.info_string', 'self.solve_performed', 'ghost:feas', 'ghost:val', 'ghost:status', 'ghost:hist', 'ghost:solves', 'ghost:objective', 'ghost:feas_at_solve', 'ghost:used:obj_maxsize'],
    ensures=[('size-linked-maximised-frozen', 'feas() == (old(feas()) and 0 <= nu(o()) and nu(o()) <= self.model.num_students and size() == nu(o()) and nu(o()) >= solved(o()))'),
             ('one-solve', 'solves() == old(solves()) + 1 and hist(old(solves())) == status()'), ('earlier-history-unchanged', 'forall(u, implies(u < old(solves()), hist(u) == old(hist(u))))'), ('solve-recorded', 'implies(solves() > old(solves()), self.solve_performed) and implies(solves() == old(solves()), self.solve_performed == old(self.solve_performed))'),
             ('maximises', 'objective() == nu(o())'), ('name-used', "used('obj_maxsize')"),
             # witness-in-bounds: the size of EVERY matching feasible before this criterion lies within the bounds of the objective variable,
             # so linking the variable excludes none of them (completeness half of C02 for this criterion)
             ('every-feasible-matching-fits-the-objective-variable', 'implies(old(feas()), 0 <= size() and size() <= self.model.num_students)')]),
 M + 'optimisation_minsize': dict(
    requires=['has_vars(self.model.pairs)', "not used('obj_minsize')", 'len(self.model.pairs) == self.model.num_students', 'self.model.num_students >= 0', ('partial-assignment-constraints-present', 'implies(feas(), rows_partial(self.model))')],
    use_lemmas={'return': [('C02/size-bound', {'r': 'lam(i, len(self.model.pairs), varsum(self.model.pairs[i]))', 'n': 'len(self.model.pairs)'}, 'if-applicable')]},
    defs={'o': ([], "namedvar('obj_minsize')"), 'size': ([], 'Sum(i, len(self.model.pairs), varsum(self.model.pairs[i]))')},
    modifies=['self.info_string', 'self.solve_performed', 'ghost:feas', 'ghost:val', 'ghost:status', 'ghost:hist', 'ghost:solves', 'ghost:objective', 'ghost:feas_at_solve', 'ghost:used:obj_minsize'],
    ensures=[('size-linked-minimised-frozen', 'feas() == (old(feas()) and 0 <= nu(o()) and nu(o()) <= self.model.num_students and size() == nu(o()) and nu(o()) <= solved(o()))'),
             ('one-solve', 'solves() == old(solves()) + 1 and hist(old(solves())) == status()'), ('earlier-history-unchanged', 'forall(u, implies(u < old(solves()), hist(u) == old(hist(u))))'), ('solve-recorded', 'implies(solves() > old(solves()), self.solve_performed) and implies(solves() == old(solves()), self.solve_performed == old(self.solve_performed))'),
             ('minimises', 'objective() == 0 - nu(o())'), ('name-used', "used('obj_minsize')"),
             # witness-in-bounds: the size of EVERY matching feasible before this criterion lies within the bounds of the objective variable,
             # so linking the variable excludes none of them (completeness half of C02 for this criterion)
             ('every-feasible-matching-fits-the-objective-variable', 'implies(old(feas()), 0 <= size() and size() <= self.model.num_students)')]),

 M + 'optimisation_mincost': dict(
    params={'cost_multipliers': ('list', 'int')},
    requires=MODEL_OK + ['pairs_ok(self.model)', "not used('obj_mincost')", ('pair-variables-are-binary', 'implies(feas(), pairs_binary(self.model))', ['every-feasible-matching-fits-the-objective-variable', 'parts-within-their-bounds']), ('partial-assignment-constraints-present', 'implies(feas(), rows_partial(self.model))', ['every-feasible-matching-fits-the-objective-variable', 'parts-within-their-bounds']), ('multipliers-non-negative', 'forall(t, 0, len(cost_multipliers), cost_multipliers[t] >= 0)', ['every-feasible-matching-fits-the-objective-variable', 'parts-within-their-bounds']), ('ranks-bounded', "forall(i, 0, len(self.model.pairs), forall(c, 0, len(self.model.pairs[i]), self.model.pairs[i][c].rank_student <= self.model.num_projects and implies(has(self.model.pairs[i][c], 'rank_lecturer'), 1 <= self.model.pairs[i][c].rank_lecturer and self.model.pairs[i][c].rank_lecturer <= self.model.num_students)))", ['every-feasible-matching-fits-the-objective-variable', 'parts-within-their-bounds'])],
    defs={'o': ([], "namedvar('obj_mincost')"),
          'sm': ([], 'ite(len(cost_multipliers) < 1, 1, cost_multipliers[0])'),
          'lm': ([], 'ite(len(cost_multipliers) < 2, 0, cost_multipliers[1])'),
          'cost': (['p'], 'nu(p.lp_var) * p.rank_student * sm() + ite(has(p, \'rank_lecturer\'), nu(p.lp_var) * p.rank_lecturer * lm(), 0)'),
          'total': ([], 'Sum(i, len(self.model.pairs), Sum(c, len(self.model.pairs[i]), cost(self.model.pairs[i][c])))'),
          'UB': ([], 'self.model.num_students * self.model.num_projects * sm() + self.model.num_students * self.model.num_students * lm()')},
    loops={0: dict(invariant=['sum_costs_exp == Sum(q, _k, cost(flat(self.model.pairs)[q]))'])},
    use_lemmas={'loop0.exit': [('FLAT/sum', {'rows': 'self.model.pairs', 'g': 'lam(x, 1, cost(ref(x)))'})],
                'return': [('C02/mincost-bound', {'m': 'self.model', 'sm': 'sm()', 'lm': 'lm()', 'KK': 'self.model.num_projects * sm() + self.model.num_students * lm()'}, 'if-applicable', ['every-feasible-matching-fits-the-objective-variable'])]},
    modifies=['self.info_string', 'self.solve_performed', 'ghost:feas', 'ghost:val', 'ghost:status', 'ghost:hist', 'ghost:solves', 'ghost:objective', 'ghost:feas_at_solve', 'ghost:used:obj_mincost'],
    ensures=[('cost-linked-minimised-frozen', 'feas() == (old(feas()) and 0 <= nu(o()) and nu(o()) <= UB() and total() == nu(o()) and nu(o()) <= solved(o()))'),
             ('one-solve', 'solves() == old(solves()) + 1 and hist(old(solves())) == status()'), ('earlier-history-unchanged', 'forall(u, implies(u < old(solves()), hist(u) == old(hist(u))))'), ('solve-recorded', 'implies(solves() > old(solves()), self.solve_performed) and implies(solves() == old(solves()), self.solve_performed == old(self.solve_performed))'),
             ('minimises', 'objective() == 0 - nu(o())'), ('name-used', "used('obj_mincost')"),
             # witness-in-bounds (lemma C02/mincost-bound): the weighted cost of EVERY matching feasible before the criterion fits the objective variable
             ('every-feasible-matching-fits-the-objective-variable', 'implies(old(feas()), 0 <= total() and total() <= UB())')]),

 M + 'optimisation_minsqcost': dict(
    params={'cost_multipliers': ('list', 'int')},
    requires=MODEL_OK + ['pairs_ok(self.model)', "not used('obj_minsqcost')", ('pair-variables-are-binary', 'implies(feas(), pairs_binary(self.model))', ['every-feasible-matching-fits-the-objective-variable', 'parts-within-their-bounds']), ('partial-assignment-constraints-present', 'implies(feas(), rows_partial(self.model))', ['every-feasible-matching-fits-the-objective-variable', 'parts-within-their-bounds']), ('multipliers-non-negative', 'forall(t, 0, len(cost_multipliers), cost_multipliers[t] >= 0)', ['every-feasible-matching-fits-the-objective-variable', 'parts-within-their-bounds']), ('ranks-bounded', "forall(i, 0, len(self.model.pairs), forall(c, 0, len(self.model.pairs[i]), self.model.pairs[i][c].rank_student <= self.model.num_projects and implies(has(self.model.pairs[i][c], 'rank_lecturer'), 1 <= self.model.pairs[i][c].rank_lecturer and self.model.pairs[i][c].rank_lecturer <= self.model.num_students)))", ['every-feasible-matching-fits-the-objective-variable', 'parts-within-their-bounds']), ('one-rank-list-per-rank', 'is_max_rank(self.model, len(self.model.rank_lists))', ['every-feasible-matching-fits-the-objective-variable', 'parts-within-their-bounds'])],
    defs={'o': ([], "namedvar('obj_minsqcost')"),
          'sm': ([], 'ite(len(cost_multipliers) < 1, 1, cost_multipliers[0])'),
          'lm': ([], 'ite(len(cost_multipliers) < 2, 0, cost_multipliers[1])'),
          'cost': (['p'], 'nu(p.lp_var) * (p.rank_student * p.rank_student) * sm() + ite(has(p, \'rank_lecturer\'), nu(p.lp_var) * (p.rank_lecturer * p.rank_lecturer) * lm(), 0)'),
          'total': ([], 'Sum(i, len(self.model.pairs), Sum(c, len(self.model.pairs[i]), cost(self.model.pairs[i][c])))'),
          'UB': ([], '(self.model.num_students * len(self.model.rank_lists)) * (self.model.num_students * len(self.model.rank_lists)) * sm() + (self.model.num_students * self.model.num_students) * (self.model.num_students * self.model.num_students) * lm()')},
    loops={0: dict(invariant=['sum_costs_exp == Sum(q, _k, cost(flat(self.model.pairs)[q]))'])},
    use_lemmas={'loop0.exit': [('FLAT/sum', {'rows': 'self.model.pairs', 'g': 'lam(x, 1, cost(ref(x)))'})],
                'return': [('C02/sqcost-bound', {'m': 'self.model', 'sm': 'sm()', 'lm': 'lm()', 'R': 'len(self.model.rank_lists)',
                                                 'KK': 'len(self.model.rank_lists) * len(self.model.rank_lists) * sm() + self.model.num_students * self.model.num_students * lm()'}, 'if-applicable', ['every-feasible-matching-fits-the-objective-variable'])]},
    modifies=['self.info_string', 'self.solve_performed', 'ghost:feas', 'ghost:val', 'ghost:status', 'ghost:hist', 'ghost:solves', 'ghost:objective', 'ghost:feas_at_solve', 'ghost:used:obj_minsqcost'],
    ensures=[('cost-linked-minimised-frozen', 'feas() == (old(feas()) and 0 <= nu(o()) and nu(o()) <= UB() and total() == nu(o()) and nu(o()) <= solved(o()))'),
             ('one-solve', 'solves() == old(solves()) + 1 and hist(old(solves())) == status()'), ('earlier-history-unchanged', 'forall(u, implies(u < old(solves()), hist(u) == old(hist(u))))'), ('solve-recorded', 'implies(solves() > old(solves()), self.solve_performed) and implies(solves() == old(solves()), self.solve_performed == old(self.solve_performed))'),
             ('minimises', 'objective() == 0 - nu(o())'), ('name-used', "used('obj_minsqcost')"),
             ('every-feasible-matching-fits-the-objective-variable', 'implies(old(feas()), 0 <= total() and total() <= UB())')]),

 M + 'optimisation_mincostlsb': dict(
    params={'cost_multipliers': ('list', 'int')},
    requires=MODEL_OK + ['pairs_ok(self.model)', "not used('obj_mincostlsb')", 'len(self.model.abs_lec_diff) == self.model.num_lecturers', ('pair-variables-are-binary', 'implies(feas(), pairs_binary(self.model))', ['every-feasible-matching-fits-the-objective-variable', 'parts-within-their-bounds']), ('partial-assignment-constraints-present', 'implies(feas(), rows_partial(self.model))', ['every-feasible-matching-fits-the-objective-variable', 'parts-within-their-bounds']), ('multipliers-non-negative', 'forall(t, 0, len(cost_multipliers), cost_multipliers[t] >= 0)', ['every-feasible-matching-fits-the-objective-variable', 'parts-within-their-bounds']), ('ranks-bounded', "forall(i, 0, len(self.model.pairs), forall(c, 0, len(self.model.pairs[i]), self.model.pairs[i][c].rank_student <= self.model.num_projects and implies(has(self.model.pairs[i][c], 'rank_lecturer'), 1 <= self.model.pairs[i][c].rank_lecturer and self.model.pairs[i][c].rank_lecturer <= self.model.num_students)))", ['every-feasible-matching-fits-the-objective-variable', 'parts-within-their-bounds']), ('deviation-variables-are-bounded', 'implies(feas(), forall(k, 0, self.model.num_lecturers, 0 <= nu(self.model.abs_lec_diff[k]) and nu(self.model.abs_lec_diff[k]) <= self.model.lec_upper_quotas[k]))', ['every-feasible-matching-fits-the-objective-variable', 'parts-within-their-bounds'])],
    defs={'o': ([], "namedvar('obj_mincostlsb')"),
          'sm': ([], 'ite(len(cost_multipliers) < 1, 1, cost_multipliers[0])'),
          'lm': ([], 'ite(len(cost_multipliers) < 2, 1, cost_multipliers[1])'),
          'cost': (['p'], 'nu(p.lp_var) * p.rank_student * sm()'),
          'stud': ([], 'Sum(i, len(self.model.pairs), Sum(c, len(self.model.pairs[i]), cost(self.model.pairs[i][c])))'),
          'devsum': ([], 'Sum(k, len(self.model.abs_lec_diff), nu(self.model.abs_lec_diff[k]))'), 'uqsum': ([], 'Sum(k, len(self.model.lec_upper_quotas), self.model.lec_upper_quotas[k])'),
          'total': ([], 'Sum(i, len(self.model.pairs), Sum(c, len(self.model.pairs[i]), cost(self.model.pairs[i][c]))) + Sum(k, len(self.model.abs_lec_diff), nu(self.model.abs_lec_diff[k])) * lm()'),
          'UB': ([], 'self.model.num_students * self.model.num_projects * sm() + Sum(k, len(self.model.lec_upper_quotas), self.model.lec_upper_quotas[k]) * lm()')},
    loops={0: dict(invariant=['sum_costs_exp == Sum(q, _k, cost(flat(self.model.pairs)[q]))'])},
    use_lemmas={'loop0.exit': [('FLAT/sum', {'rows': 'self.model.pairs', 'g': 'lam(x, 1, cost(ref(x)))'})],
                'return': [('C02/studentcost-bound', {'m': 'self.model', 'sm': 'sm()', 'lm': 'lm()', 'KK': 'self.model.num_projects * sm()'}, 'if-applicable', ['every-feasible-matching-fits-the-objective-variable', 'parts-within-their-bounds']),
                           ('SUM/le', {'f': 'lam(k, self.model.num_lecturers, nu(self.model.abs_lec_diff[k]))', 'g': 'self.model.lec_upper_quotas', 'n': 'self.model.num_lecturers'}, 'if-applicable', ['every-feasible-matching-fits-the-objective-variable', 'parts-within-their-bounds']),
                           ('SUM/nonneg', {'f': 'lam(k, self.model.num_lecturers, nu(self.model.abs_lec_diff[k]))', 'n': 'self.model.num_lecturers'}, 'if-applicable', ['every-feasible-matching-fits-the-objective-variable', 'parts-within-their-bounds'])]},
    modifies=['self.info_string', 'self.solve_performed', 'ghost:feas', 'ghost:val', 'ghost:status', 'ghost:hist', 'ghost:solves', 'ghost:objective', 'ghost:feas_at_solve', 'ghost:used:obj_mincostlsb'],
    ensures=[('cost-linked-minimised-frozen', 'feas() == (old(feas()) and 0 <= nu(o()) and nu(o()) <= UB() and total() == nu(o()) and nu(o()) <= solved(o()))'),
             ('one-solve', 'solves() == old(solves()) + 1 and hist(old(solves())) == status()'), ('earlier-history-unchanged', 'forall(u, implies(u < old(solves()), hist(u) == old(hist(u))))'), ('solve-recorded', 'implies(solves() > old(solves()), self.solve_performed) and implies(solves() == old(solves()), self.solve_performed == old(self.solve_performed))'),
             ('minimises', 'objective() == 0 - nu(o())'), ('name-used', "used('obj_mincostlsb')"),
             ('parts-within-their-bounds', 'implies(old(feas()), 0 <= stud() and stud() <= self.model.num_students * self.model.num_projects * sm() and 0 <= devsum() and devsum() <= uqsum())'),
             ('every-feasible-matching-fits-the-objective-variable', 'implies(old(feas()), 0 <= total() and total() <= UB())')]),

 # ---- load balancing: abs_lec_diff[k] >= |load_k - target_k|
 M + 'loadbalancing_constraints': dict(
    requires=MODEL_OK + ['len(self.model.lec_overload) == self.model.num_lecturers', 'len(self.model.lec_underload) == self.model.num_lecturers',
                         'len(self.model.abs_lec_diff) == self.model.num_lecturers', ('well-formed-lecturer-quotas', 'forall(k, 0, self.model.num_lecturers, 0 <= self.model.lec_lower_quotas[k] and 0 <= self.model.lec_targets[k] and self.model.lec_targets[k] <= self.model.lec_upper_quotas[k])'),
                         ('lecturer-constraints-present', 'implies(feas(), forall(k, 0, self.model.num_lecturers, self.model.lec_lower_quotas[k] <= varsum(self.model.lecturer_lists[k]) and varsum(self.model.lecturer_lists[k]) <= self.model.lec_upper_quotas[k]))')],
    defs={'dev_ok': (['k'], 'nu(self.model.abs_lec_diff[k]) >= varsum(self.model.lecturer_lists[k]) - self.model.lec_targets[k]'
                            ' and nu(self.model.abs_lec_diff[k]) >= self.model.lec_targets[k] - varsum(self.model.lecturer_lists[k])')},
    loops={0: dict(invariant=['feas() == (old(feas()) and forall(k, 0, _k, dev_ok(k)))',
                              'len(self.model.lec_overload) == self.model.num_lecturers and len(self.model.lec_underload) == self.model.num_lecturers'])},
    modifies=['self.info_string', 'ghost:feas', 'self.model.lec_overload', 'self.model.lec_underload'],
    ensures=[('deviation-variables-bound-the-absolute-deviation', 'feas() == (old(feas()) and forall(k, 0, self.model.num_lecturers, dev_ok(k)))'),
             # witness-in-bounds: for every matching feasible before, |load - target| of every lecturer fits the deviation variable's domain [0, upper quota]
             ('every-feasible-deviation-fits-the-deviation-variable', 'implies(old(feas()), forall(k, 0, self.model.num_lecturers, abs(varsum(self.model.lecturer_lists[k]) - self.model.lec_targets[k]) <= self.model.lec_upper_quotas[k]))')]),

 M + 'optimisation_loadmaxbal': dict(
    requires=['sizes_ok(self.model)', 'self.model.num_lecturers >= 1', 'len(self.model.abs_lec_diff) == self.model.num_lecturers', "not used('lec_max_abs_diff')", ('deviation-variables-are-bounded', 'implies(feas(), forall(k, 0, self.model.num_lecturers, 0 <= nu(self.model.abs_lec_diff[k]) and nu(self.model.abs_lec_diff[k]) <= self.model.lec_upper_quotas[k]))')],
    defs={'o': ([], "namedvar('lec_max_abs_diff')")},
    loops={0: dict(invariant=['feas() == (old(feas()) and 0 <= nu(o()) and exists(m, 0, self.model.num_lecturers, nu(o()) <= self.model.lec_upper_quotas[m])'
                              ' and forall(m, 0, self.model.num_lecturers, implies(forall(k2, 0, self.model.num_lecturers, self.model.lec_upper_quotas[k2] <= self.model.lec_upper_quotas[m]), nu(o()) <= self.model.lec_upper_quotas[m]))'
                              ' and forall(k, 0, _k, nu(o()) >= nu(self.model.abs_lec_diff[k])))'])},
    modifies=['self.info_string', 'self.solve_performed', 'ghost:feas', 'ghost:val', 'ghost:status', 'ghost:hist', 'ghost:solves', 'ghost:objective', 'ghost:feas_at_solve', 'ghost:used:lec_max_abs_diff'],
    ensures=[('max-deviation-linked-minimised-frozen',
              'exists(mx, 0, self.model.num_lecturers, forall(k2, 0, self.model.num_lecturers, self.model.lec_upper_quotas[k2] <= self.model.lec_upper_quotas[mx]) and '
              'feas() == (old(feas()) and 0 <= nu(o()) and nu(o()) <= self.model.lec_upper_quotas[mx]'
              ' and forall(k, 0, self.model.num_lecturers, nu(o()) >= nu(self.model.abs_lec_diff[k])) and nu(o()) <= solved(o())))'),
             ('one-solve', 'solves() == old(solves()) + 1 and hist(old(solves())) == status()'), ('earlier-history-unchanged', 'forall(u, implies(u < old(solves()), hist(u) == old(hist(u))))'), ('solve-recorded', 'implies(solves() > old(solves()), self.solve_performed) and implies(solves() == old(solves()), self.solve_performed == old(self.solve_performed))'),
             ('minimises', 'objective() == 0 - nu(o())'), ('name-used', "used('lec_max_abs_diff')"),
             # witness-in-bounds: in every valuation feasible before the criterion the largest deviation value fits under the variable's upper bound (the largest upper quota)
             ('every-feasible-valuation-fits-the-objective-variable', 'implies(old(feas()), forall(mx, 0, self.model.num_lecturers, implies(forall(k2, 0, self.model.num_lecturers, self.model.lec_upper_quotas[k2] <= self.model.lec_upper_quotas[mx]),'
              ' forall(k, 0, self.model.num_lecturers, 0 <= nu(self.model.abs_lec_diff[k]) and nu(self.model.abs_lec_diff[k]) <= self.model.lec_upper_quotas[mx]))))')]),

 M + 'optimisation_loadsumbal': dict(
    requires=['sizes_ok(self.model)', 'self.model.num_lecturers >= 1', 'len(self.model.abs_lec_diff) == self.model.num_lecturers', "not used('lec_sum_abs_diff')", ('deviation-variables-are-bounded', 'implies(feas(), forall(k, 0, self.model.num_lecturers, 0 <= nu(self.model.abs_lec_diff[k]) and nu(self.model.abs_lec_diff[k]) <= self.model.lec_upper_quotas[k]))')],
    defs={'o': ([], "namedvar('lec_sum_abs_diff')")},
    use_lemmas={'return': [('SUM/le', {'f': 'lam(k, self.model.num_lecturers, nu(self.model.abs_lec_diff[k]))', 'g': 'self.model.lec_upper_quotas', 'n': 'self.model.num_lecturers'}, 'if-applicable'),
                           ('SUM/nonneg', {'f': 'lam(k, self.model.num_lecturers, nu(self.model.abs_lec_diff[k]))', 'n': 'self.model.num_lecturers'}, 'if-applicable')]},
    modifies=['self.info_string', 'self.solve_performed', 'ghost:feas', 'ghost:val', 'ghost:status', 'ghost:hist', 'ghost:solves', 'ghost:objective', 'ghost:feas_at_solve', 'ghost:used:lec_sum_abs_diff'],
    ensures=[('sum-of-deviations-linked-minimised-frozen',
              'feas() == (old(feas()) and 0 <= nu(o()) and nu(o()) <= Sum(k, len(self.model.lec_upper_quotas), self.model.lec_upper_quotas[k])'
              ' and nu(o()) >= Sum(k, len(self.model.abs_lec_diff), nu(self.model.abs_lec_diff[k])) and nu(o()) <= solved(o()))'),
             ('one-solve', 'solves() == old(solves()) + 1 and hist(old(solves())) == status()'), ('earlier-history-unchanged', 'forall(u, implies(u < old(solves()), hist(u) == old(hist(u))))'), ('solve-recorded', 'implies(solves() > old(solves()), self.solve_performed) and implies(solves() == old(solves()), self.solve_performed == old(self.solve_performed))'),
             ('minimises', 'objective() == 0 - nu(o())'), ('name-used', "used('lec_sum_abs_diff')"),
             # witness-in-bounds: the sum of the deviation values of every valuation feasible before the criterion lies within the variable's bounds (0 .. sum of the upper quotas)
             ('every-feasible-valuation-fits-the-objective-variable', 'implies(old(feas()), 0 <= Sum(k, len(self.model.abs_lec_diff), nu(self.model.abs_lec_diff[k]))'
              ' and Sum(k, len(self.model.abs_lec_diff), nu(self.model.abs_lec_diff[k])) <= Sum(k, len(self.model.lec_upper_quotas), self.model.lec_upper_quotas[k]))')]),

 # ---- C04 / C14 / C16: criteria are dispatched in list order; after the first solve that is not Optimal nothing more is solved
 M + 'run_optimisations': dict(
    params={'optimisation_options': ('list', 'crit')},
    requires=MODEL_OK + ['pairs_ok(self.model)', 'has_vars(self.model.rank_lists)', 'self.model.num_lecturers >= 1', ('partial-assignment-constraints-present', 'implies(feas(), rows_partial(self.model))'), ('one-rank-list-per-rank', 'is_max_rank(self.model, len(self.model.rank_lists))'), ('ranks-bounded', "forall(i, 0, len(self.model.pairs), forall(c, 0, len(self.model.pairs[i]), self.model.pairs[i][c].rank_student <= self.model.num_projects and implies(has(self.model.pairs[i][c], 'rank_lecturer'), 1 <= self.model.pairs[i][c].rank_lecturer and self.model.pairs[i][c].rank_lecturer <= self.model.num_students)))"), ('cost-multipliers-non-negative', 'forall(a, 0, len(optimisation_options), implies((optimisation_options[a][0] == Optimisation_options.MINCOST or optimisation_options[a][0] == Optimisation_options.MINSQCOST or optimisation_options[a][0] == Optimisation_options.MINCOSTLSB) and optimisation_options[a][1] != None, forall(t, 0, len(optimisation_options[a][1]), optimisation_options[a][1][t] >= 0)))'), ('rank-list-sums-for-every-weight', 'forall(j, 0, len(self.model.rank_lists), wsum(self.model.rank_lists[j]) == RANKW(j))'), ('pair-variables-are-binary', 'implies(feas(), pairs_binary(self.model))'), ('deviation-variables-are-bounded', 'implies(feas() and exists(a, 0, len(optimisation_options), optimisation_options[a][0] == Optimisation_options.LOADMAXBAL or optimisation_options[a][0] == Optimisation_options.LOADSUMBAL or optimisation_options[a][0] == Optimisation_options.MINCOSTLSB), forall(k, 0, self.model.num_lecturers, 0 <= nu(self.model.abs_lec_diff[k]) and nu(self.model.abs_lec_diff[k]) <= self.model.lec_upper_quotas[k]))'),
              ('each-criterion-at-most-once', 'forall(a, 0, len(optimisation_options), forall(b, a + 1, len(optimisation_options), optimisation_options[a][0] != optimisation_options[b][0]))'),
              ('criteria-are-members', 'forall(a, 0, len(optimisation_options), 1 <= optimisation_options[a][0] and optimisation_options[a][0] <= 9)'),
              ('extras-are-lists-where-used', 'forall(a, 0, len(optimisation_options), implies(optimisation_options[a][0] == Optimisation_options.GENEROUS or optimisation_options[a][0] == Optimisation_options.GREEDY or optimisation_options[a][0] == Optimisation_options.MINCOST or optimisation_options[a][0] == Optimisation_options.MINSQCOST or optimisation_options[a][0] == Optimisation_options.MINCOSTLSB, optimisation_options[a][1] != None))'),
              ('load-balancing-variables-exist-when-needed', 'implies(exists(a, 0, len(optimisation_options), optimisation_options[a][0] == Optimisation_options.LOADMAXBAL or optimisation_options[a][0] == Optimisation_options.LOADSUMBAL or optimisation_options[a][0] == Optimisation_options.MINCOSTLSB), len(self.model.abs_lec_diff) == self.model.num_lecturers)'),
              "not used('obj_maxsize')", "not used('obj_minsize')", "not used('obj_mincost')", "not used('obj_minsqcost')", "not used('lec_max_abs_diff')", "not used('lec_sum_abs_diff')", "not used('obj_mincostlsb')"],
    defs={'RANKW': (['j'], 'Sum(i, len(self.model.pairs), Sum(c, len(self.model.pairs[i]), ite(self.model.pairs[i][c].rank_student == j + 1, W(self.model.pairs[i][c]), 0)))')},
    loops={0: dict(invariant=[('no-solve-after-a-failure', 'forall(u, old(solves()), solves(), hist(u) == 1)'),
                              'solves() >= old(solves())', 'forall(u, implies(u < old(solves()), hist(u) == old(hist(u))))',
                              'implies(solves() == old(solves()), status() == old(status()))', 'implies(solves() > old(solves()), hist(solves() - 1) == status())',
                              'implies(solves() > old(solves()), self.solve_performed) and implies(solves() == old(solves()), self.solve_performed == old(self.solve_performed))',
                              ('constraints-only-grow', 'implies(feas(), old(feas()))'), ('partial-assignment-constraints-present', 'implies(feas(), rows_partial(self.model))'), ('pair-variables-are-binary', 'implies(feas(), pairs_binary(self.model))'), ('deviation-variables-are-bounded', 'implies(feas() and exists(a, 0, len(optimisation_options), optimisation_options[a][0] == Optimisation_options.LOADMAXBAL or optimisation_options[a][0] == Optimisation_options.LOADSUMBAL or optimisation_options[a][0] == Optimisation_options.MINCOSTLSB), forall(k, 0, self.model.num_lecturers, 0 <= nu(self.model.abs_lec_diff[k]) and nu(self.model.abs_lec_diff[k]) <= self.model.lec_upper_quotas[k]))'),
                              ('names-used-by-the-criteria-run-so-far', "used('obj_maxsize') == exists(t, 0, _k, optimisation_options[t][0] == Optimisation_options.MAXSIZE) and used('obj_minsize') == exists(t, 0, _k, optimisation_options[t][0] == Optimisation_options.MINSIZE) and used('obj_mincost') == exists(t, 0, _k, optimisation_options[t][0] == Optimisation_options.MINCOST) and used('obj_minsqcost') == exists(t, 0, _k, optimisation_options[t][0] == Optimisation_options.MINSQCOST) and used('lec_max_abs_diff') == exists(t, 0, _k, optimisation_options[t][0] == Optimisation_options.LOADMAXBAL) and used('lec_sum_abs_diff') == exists(t, 0, _k, optimisation_options[t][0] == Optimisation_options.LOADSUMBAL) and used('obj_mincostlsb') == exists(t, 0, _k, optimisation_options[t][0] == Optimisation_options.MINCOSTLSB)")])},
    modifies=['self.info_string', 'self.solve_performed', 'ghost:feas', 'ghost:val', 'ghost:status', 'ghost:hist', 'ghost:solves', 'ghost:objective', 'ghost:feas_at_solve', 'ghost:used:obj_maxsize', 'ghost:used:obj_minsize', 'ghost:used:obj_mincost', 'ghost:used:obj_minsqcost', 'ghost:used:lec_max_abs_diff', 'ghost:used:lec_sum_abs_diff', 'ghost:used:obj_mincostlsb'],
    ensures=[('only-the-last-solve-may-have-failed', 'forall(u, old(solves()), solves() - 1, hist(u) == 1)'),
             ('status-is-that-of-the-last-solve', 'implies(solves() > old(solves()), hist(solves() - 1) == status())'),
             ('constraints-only-grow', 'implies(feas(), old(feas()))'),
             ('status-unchanged-without-solve', 'implies(solves() == old(solves()), status() == old(status()))'),
             ('solves-never-decrease', 'solves() >= old(solves())'), ('earlier-history-unchanged', 'forall(u, implies(u < old(solves()), hist(u) == old(hist(u))))'), ('solve-recorded', 'implies(solves() > old(solves()), self.solve_performed) and implies(solves() == old(solves()), self.solve_performed == old(self.solve_performed))')]),

 M + 'add_constraints': dict(inline=True,
    use_lemmas={'after_call:upper_lower_constraints': [('SUM/nonneg', {'f': 'var_terms(self.model.pairs[i], len(self.model.pairs[i]))', 'n': 'len(self.model.pairs[i])'}, 'forall:i')]},
    loops={0: dict(invariant=[('load-balancing-constraints-needed-iff-lmb-lsb-or-mincostlsb-requested', 'load_balancing_constraints_needed == exists(t, 0, _k, optimisation_options[t][0] == Optimisation_options.LOADMAXBAL'
                              ' or optimisation_options[t][0] == Optimisation_options.LOADSUMBAL or optimisation_options[t][0] == Optimisation_options.MINCOSTLSB)')])}),

 # ---- C02 / C14: the whole LP run: constraints, criteria in order, at least one solve, the status of the last solve is returned
 M + 'run': dict(
    params={'msg': 'bool', 'timeLimit': 'optint', 'threads': 'optint', 'write': 'bool'},
    requires=MODEL_OK + ['pairs_ok(self.model)', 'has_vars(self.model.rank_lists)', 'self.model.num_lecturers >= 1', 'rows_sorted(self.model)',
              ('pair-variables-are-binary', 'implies(feas(), pairs_binary(self.model))'), ('one-rank-list-per-rank', 'is_max_rank(self.model, len(self.model.rank_lists))'), ('ranks-bounded', "forall(i, 0, len(self.model.pairs), forall(c, 0, len(self.model.pairs[i]), self.model.pairs[i][c].rank_student <= self.model.num_projects and implies(has(self.model.pairs[i][c], 'rank_lecturer'), 1 <= self.model.pairs[i][c].rank_lecturer and self.model.pairs[i][c].rank_lecturer <= self.model.num_students)))"), ('cost-multipliers-non-negative', 'forall(a, 0, len(self.optimisation_options), implies((self.optimisation_options[a][0] == Optimisation_options.MINCOST or self.optimisation_options[a][0] == Optimisation_options.MINSQCOST or self.optimisation_options[a][0] == Optimisation_options.MINCOSTLSB) and self.optimisation_options[a][1] != None, forall(t, 0, len(self.optimisation_options[a][1]), self.optimisation_options[a][1][t] >= 0)))'), ('rank-list-sums-for-every-weight', 'forall(j, 0, len(self.model.rank_lists), wsum(self.model.rank_lists[j]) == RANKW(j))'), ('well-formed-lecturer-quotas', 'forall(k, 0, self.model.num_lecturers, 0 <= self.model.lec_lower_quotas[k] and 0 <= self.model.lec_targets[k] and self.model.lec_targets[k] <= self.model.lec_upper_quotas[k])'), ('deviation-variables-are-bounded', 'implies(feas() and exists(a, 0, len(self.optimisation_options), self.optimisation_options[a][0] == Optimisation_options.LOADMAXBAL or self.optimisation_options[a][0] == Optimisation_options.LOADSUMBAL or self.optimisation_options[a][0] == Optimisation_options.MINCOSTLSB), forall(k, 0, self.model.num_lecturers, 0 <= nu(self.model.abs_lec_diff[k]) and nu(self.model.abs_lec_diff[k]) <= self.model.lec_upper_quotas[k]))'),
              'implies(self.extra_constraints[Extra_constraints.STAB], two_sided(self.model) and stab_vars(self.model.pairs) and lists_two_sided(self.model.lecturer_lists))',
              'implies(self.instance_options[Instance_options.PC], len(self.model.project_closures) == self.model.num_projects)',
              ('each-criterion-at-most-once', 'forall(a, 0, len(self.optimisation_options), forall(b, a + 1, len(self.optimisation_options), self.optimisation_options[a][0] != self.optimisation_options[b][0]))'),
              ('criteria-are-members', 'forall(a, 0, len(self.optimisation_options), 1 <= self.optimisation_options[a][0] and self.optimisation_options[a][0] <= 9)'),
              ('extras-are-lists-where-used', 'forall(a, 0, len(self.optimisation_options), implies(self.optimisation_options[a][0] == Optimisation_options.GENEROUS or self.optimisation_options[a][0] == Optimisation_options.GREEDY or self.optimisation_options[a][0] == Optimisation_options.MINCOST or self.optimisation_options[a][0] == Optimisation_options.MINSQCOST or self.optimisation_options[a][0] == Optimisation_options.MINCOSTLSB, self.optimisation_options[a][1] != None))'),
              ('load-balancing-variables-exist-when-needed', 'implies(exists(a, 0, len(self.optimisation_options), self.optimisation_options[a][0] == Optimisation_options.LOADMAXBAL or self.optimisation_options[a][0] == Optimisation_options.LOADSUMBAL or self.optimisation_options[a][0] == Optimisation_options.MINCOSTLSB),'
               ' len(self.model.abs_lec_diff) == self.model.num_lecturers and len(self.model.lec_overload) == self.model.num_lecturers and len(self.model.lec_underload) == self.model.num_lecturers)'),
              "not used('obj_maxsize')", "not used('obj_minsize')", "not used('obj_mincost')", "not used('obj_minsqcost')", "not used('lec_max_abs_diff')", "not used('lec_sum_abs_diff')", "not used('obj_mincostlsb')"],
    modifies=['self.info_string', 'self.solver', 'self.model.info_string', 'self.model.lec_overload', 'self.model.lec_underload', 'self.solve_performed', 'ghost:feas', 'ghost:val', 'ghost:status', 'ghost:hist', 'ghost:solves', 'ghost:objective', 'ghost:feas_at_solve', 'ghost:used:obj_maxsize', 'ghost:used:obj_minsize', 'ghost:used:obj_mincost', 'ghost:used:obj_minsqcost', 'ghost:used:lec_max_abs_diff', 'ghost:used:lec_sum_abs_diff', 'ghost:used:obj_mincostlsb'],
    returns=('statusstr',),
    defs=dict(ULC, RANKW=(['j'], 'Sum(i, len(self.model.pairs), Sum(c, len(self.model.pairs[i]), ite(self.model.pairs[i][c].rank_student == j + 1, W(self.model.pairs[i][c]), 0)))'), needs_lb=([], 'exists(a, 0, len(self.optimisation_options), self.optimisation_options[a][0] == Optimisation_options.LOADMAXBAL or self.optimisation_options[a][0] == Optimisation_options.LOADSUMBAL or self.optimisation_options[a][0] == Optimisation_options.MINCOSTLSB)'),
              dev_ok=(['k'], 'nu(self.model.abs_lec_diff[k]) >= varsum(self.model.lecturer_lists[k]) - self.model.lec_targets[k] and nu(self.model.abs_lec_diff[k]) >= self.model.lec_targets[k] - varsum(self.model.lecturer_lists[k])')),
    ensures=[('solves-at-least-once', 'solves() > old(solves())'),
             # what every solution of the final program satisfies (C01 / C03 / C05 end to end: the constraint builders are called when required)
             ('matching-constraints-present', 'implies(feas(), forall(i, 0, self.model.num_students, st_ok(i)) and forall(j, 0, self.model.num_projects, pr_ok(j, self.instance_options[Instance_options.PC]))'
                                              ' and forall(k, 0, self.model.num_lecturers, le_ok(k)))'),
             ('load-balancing-constraints-present-when-a-criterion-needs-them', 'implies(needs_lb() and feas(), forall(k, 0, self.model.num_lecturers, dev_ok(k)))'),
             ('only-the-last-solve-may-have-failed', 'forall(u, old(solves()), solves() - 1, hist(u) == 1)'),
             ('returns-the-status-of-the-last-solve', 'hist(solves() - 1) == status() and result == LpStatus[status()]'),
             ('constraints-only-grow', 'implies(feas(), old(feas()))'),
             ('earlier-history-unchanged', 'forall(u, implies(u < old(solves()), hist(u) == old(hist(u))))')]),
}
