"""Sidecar contracts for matchingproblems/solver/lp_solver.py.
feas() is the ghost conjunction of every variable domain and constraint added to the problem so far, a term over the ghost
valuation nu; an EXACT characterisation  feas() == (old(feas()) and ...)  gives both directions at once:
soundness (every solution of the program satisfies ...) and completeness (every ... is a solution)."""
M = 'lp_solver:LP_Solver.'
MODEL_OK = ['sizes_ok(self.model)', 'has_vars(self.model.pairs)', 'has_vars(self.model.project_lists)', 'has_vars(self.model.lecturer_lists)',
            'len(self.model.project_lists) == self.model.num_projects', 'len(self.model.lecturer_lists) == self.model.num_lecturers']
ULC = {
 'st_ok': (['i'], 'varsum(self.model.pairs[i]) <= 1'),
 'pr_ok': (['j', 'pc'], 'ite(pc, varsum(self.model.project_lists[j]) + nu(self.model.project_closures[j]) * self.model.proj_lower_quotas[j] >= self.model.proj_lower_quotas[j]'
                        ' and varsum(self.model.project_lists[j]) + nu(self.model.project_closures[j]) * self.model.proj_upper_quotas[j] <= self.model.proj_upper_quotas[j],'
                        ' self.model.proj_lower_quotas[j] <= varsum(self.model.project_lists[j]) and varsum(self.model.project_lists[j]) <= self.model.proj_upper_quotas[j])'),
 'le_ok': (['k'], 'self.model.lec_lower_quotas[k] <= varsum(self.model.lecturer_lists[k]) and varsum(self.model.lecturer_lists[k]) <= self.model.lec_upper_quotas[k]'),
 'PCO': ([], 'instance_options[Instance_options.PC]'),
}
CONTRACTS = {
 # C01: the basic matching constraints, exactly
 M + 'upper_lower_constraints': dict(
    params={'instance_options': ('dict', 'Instance_options', {'NUMAGENTS': 'int', 'TWOPL': 'bool', 'PC': 'bool'})},
    requires=MODEL_OK + ['implies(instance_options[Instance_options.PC], len(self.model.project_closures) == self.model.num_projects)'],
    defs=ULC,
    loops={0: dict(invariant=['feas() == (old(feas()) and forall(i, 0, _k, st_ok(i)))']),
           1: dict(invariant=['feas() == (old(feas()) and forall(i, 0, self.model.num_students, st_ok(i)) and forall(j, 0, _k, pr_ok(j, PCO())))']),
           2: dict(invariant=['feas() == (old(feas()) and forall(i, 0, self.model.num_students, st_ok(i)) and forall(j, 0, self.model.num_projects, pr_ok(j, PCO()))'
                              ' and forall(k, 0, _k, le_ok(k)))'])},
    modifies=['self.info_string', 'ghost:feas'],
    ensures=[('constraints-are-exactly-the-matching-constraints',
              'feas() == (old(feas()) and forall(i, 0, self.model.num_students, st_ok(i)) and forall(j, 0, self.model.num_projects, pr_ok(j, PCO()))'
              ' and forall(k, 0, self.model.num_lecturers, le_ok(k)))')]),

 # C05: the stability constraints, exactly (per acceptable pair p of student i: alpha, beta, gamma)
 M + 'stability_constraints': dict(
    requires=MODEL_OK + ['pairs_ok(self.model)', 'rows_sorted(self.model)', 'two_sided(self.model)', 'stab_vars(self.model.pairs)',
                         'lists_two_sided(self.model.lecturer_lists)'],
    defs={'wants': (['row', 'p'], '1 - Sum(q, len(row), ite(row[q].rank_student <= p.rank_student, nu(row[q].lp_var), 0))'),
          'lkcond': (['x', 'p'], 'x.rank_lecturer <= p.rank_lecturer and x.studentID != p.studentID'),
          'lksum': (['LLk', 'p', 'n'], 'Sum(q, n, ite(lkcond(LLk[q], p), nu(LLk[q].lp_var), 0))'),
          'pjsum': (['LLk', 'p', 'n'], 'Sum(q, n, ite(lkcond(LLk[q], p) and LLk[q].projectID == p.projectID, nu(LLk[q].lp_var), 0))'),
          'LLof': (['p'], 'self.model.lecturer_lists[p.lecturer_index]'),
          'stab_ok': (['row', 'p'],
                      '(0 - self.model.lec_upper_quotas[p.lecturer_index]) * nu(p.alpha_var) + lksum(LLof(p), p, len(LLof(p))) >= 0'
                      ' and (0 - self.model.proj_upper_quotas[p.project_index]) * nu(p.beta_var) + pjsum(LLof(p), p, len(LLof(p))) >= 0'
                      ' and wants(row, p) - nu(p.alpha_var) - nu(p.beta_var) <= 0'),
          'row_ok': (['i', 'upto'], 'forall(c, 0, upto, stab_ok(self.model.pairs[i], self.model.pairs[i][c]))')},
    loops={0: dict(invariant=['feas() == (old(feas()) and forall(i, 0, _k, row_ok(i, len(self.model.pairs[i]))))']),
           1: dict(invariant=['feas() == (old(feas()) and forall(i, 0, _k0, row_ok(i, len(self.model.pairs[i]))) and row_ok(_k0, _k))']),
           2: dict(invariant=['0 <= index and index <= st_pref_length',
                              's_i_wants_to_move_exp == 1 - Sum(q, index, nu(pairs_row[q].lp_var))',
                              'implies(index < st_pref_length and index > 0, current_rank == pairs_row[index].rank_student)',
                              'implies(index == 0, current_rank == 1)',
                              'forall(q, 0, index, pairs_row[q].rank_student <= aim_rank)'],
                   variant='st_pref_length - index'),
           3: dict(invariant=['lk_sum_better_equal_exp == lksum(LLof(pair), pair, _k)',
                              'pj_sum_better_equal_exp == pjsum(LLof(pair), pair, _k)'])},
    use_lemmas={'loop2.exit': [('C05/prefix-filter', {'r': 'lam(q, st_pref_length, pairs_row[q].rank_student)',
                                                     'x': 'lam(q, st_pref_length, nu(pairs_row[q].lp_var))',
                                                     'n': 'st_pref_length', 'idx': 'index', 'aim': 'aim_rank'})]},
    modifies=['self.info_string', 'ghost:feas'],
    ensures=[('constraints-are-exactly-alpha-beta-gamma-per-acceptable-pair',
              'feas() == (old(feas()) and forall(i, 0, self.model.num_students, row_ok(i, len(self.model.pairs[i]))))')]),
}
