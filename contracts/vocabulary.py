"""Shared specification vocabulary (DESIGN section 5): macro definitions usable in every contract.
Each entry: name -> ([parameters], body expression)."""

DEFS = {
    # "in a tie at position j": the previous entry was tied with this one
    'in_tie_at': (['T', 'j'], 'j > 0 and T[j-1] != 0'),
    # writer specification of the token kind at position j of a list of length n with tie decisions T
    #   1 = Open "(x", 2 = Close "x)", 0 = Plain
    'spec_kind': (['T', 'j', 'n'],
                  'ite((not in_tie_at(T, j)) and T[j] != 0 and j < n - 1, 1,'
                  ' ite(in_tie_at(T, j) and (T[j] == 0 or j == n - 1), 2, 0))'),
    # the reader ties entry j with entry j+1  (j < n-1)
    'tied_next': (['T', 'j', 'n'], 'T[j] != 0 and j < n - 1'),
}
