"""Shared specification vocabulary (DESIGN section 5): macro definitions usable in every contract.
Each entry: name -> ([parameters], body expression)."""

DEFS = {
    # "in a tie at position j": the previous entry was tied with this one
    'in_tie_at': (['T', 'j'], 'j > 0 and T[j-1] != 0'),
    # writer specification of the token kind at position j of a list of length n with tie decisions T
    #   1 = Open "(x", 2 = Close "x)", 0 = Plain
    'spec_kind': (['T', 'j', 'n'],
                  'ite((not in_tie_at(T, j)) and T[j] != 0 and j < n - 1, 1,'
                  ' ite(in_tie_at(T, j) and (T[j] == 0 or j == n - 1), 2, 0))'),
    # the reader ties entry j with entry j+1  (j < n-1)
    'tied_next': (['T', 'j', 'n'], 'T[j] != 0 and j < n - 1'),

    # ---- Model / Pair vocabulary (DESIGN section 5)
    # a usable pair of model m: a real object with the attributes the reader sets, indices in range
    'pair_ok': (['m', 'p'],
                "p != None and has(p, 'studentID') and has(p, 'projectID') and has(p, 'student_index') and has(p, 'project_index')"
                " and has(p, 'rank_student') and has(p, 'lecturerID') and has(p, 'lecturer_index')"
                " and p.student_index == p.studentID - 1 and p.project_index == p.projectID - 1 and p.lecturer_index == p.lecturerID - 1"
                " and 0 <= p.student_index and p.student_index < m.num_students"
                " and 0 <= p.project_index and p.project_index < m.num_projects"
                " and 0 <= p.lecturer_index and p.lecturer_index < m.num_lecturers"
                " and p.lecturerID == m.proj_lecturers[p.project_index]"
                " and p.rank_student >= 1"),
    'sizes_ok': (['m'],
                 "m.num_students >= 0 and m.num_projects >= 0 and m.num_lecturers >= 0 and len(m.pairs) == m.num_students"
                 " and len(m.proj_lower_quotas) == m.num_projects and len(m.proj_upper_quotas) == m.num_projects"
                 " and len(m.proj_lecturers) == m.num_projects and len(m.lec_lower_quotas) == m.num_lecturers"
                 " and len(m.lec_targets) == m.num_lecturers and len(m.lec_upper_quotas) == m.num_lecturers"),
    # every pair in the main structure is usable and sits in its own student's row
    'pairs_ok': (['m'], "forall(i, 0, len(m.pairs), forall(c, 0, len(m.pairs[i]), pair_ok(m, m.pairs[i][c]) and m.pairs[i][c].student_index == i))"),
    # p is one of the model's pairs
    'is_model_pair': (['m', 'p'], "exists(i, 0, len(m.pairs), exists(c, 0, len(m.pairs[i]), m.pairs[i][c] == p))"),
    'rl': (['p'], "ite(has(p, 'rank_lecturer'), p.rank_lecturer, 0)"),

    # ---- loads and "worst assignee" over an assignment list L (entry None = unassigned)   [parametric: see pyvc/engine.py]
    'loadP_upto': (['L', 'j', 'n'], 'Count(q, n, L[q] != None and L[q].project_index == j)', 'parametric'),
    'loadL_upto': (['L', 'k', 'n'], 'Count(q, n, L[q] != None and L[q].lecturer_index == k)', 'parametric'),
    'loadS_upto': (['L', 's', 'n'], 'Count(q, n, L[q] != None and L[q].student_index == s)', 'parametric'),
    # the summands of the three counts as lists (bindings of SUM/ext when a list grows by an append)
    'loadP_terms': (['L', 'j', 'n'], 'lam(q, n, ite(L[q] != None and L[q].project_index == j, 1, 0))', 'parametric'),
    'loadL_terms': (['L', 'k', 'n'], 'lam(q, n, ite(L[q] != None and L[q].lecturer_index == k, 1, 0))', 'parametric'),
    'loadS_terms': (['L', 's', 'n'], 'lam(q, n, ite(L[q] != None and L[q].student_index == s, 1, 0))', 'parametric'),
    'loadP': (['L', 'j'], 'loadP_upto(L, j, len(L))'),
    'loadL': (['L', 'k'], 'loadL_upto(L, k, len(L))'),
    'loadS': (['L', 's'], 'loadS_upto(L, s, len(L))'),
    'someone_at_P': (['L', 'j'], 'exists(q, 0, len(L), L[q] != None and L[q].project_index == j)'),
    'someone_at_L': (['L', 'k'], 'exists(q, 0, len(L), L[q] != None and L[q].lecturer_index == k)'),
    'worse_at_P': (['L', 'j', 'r'], 'exists(q, 0, len(L), L[q] != None and L[q].project_index == j and L[q].rank_lecturer > r)'),
    'worse_at_L': (['L', 'k', 'r'], 'exists(q, 0, len(L), L[q] != None and L[q].lecturer_index == k and L[q].rank_lecturer > r)'),
    # SPA-STL blocking pair (property C05/C06): p = an acceptable pair of student i, a = that student's assignment (or None)
    'blocking': (['m', 'L', 'p', 'a'],
        "(a == None or p.rank_student < a.rank_student) and ("
        "(loadP(L, p.project_index) < m.proj_upper_quotas[p.project_index] and loadL(L, p.lecturer_index) < m.lec_upper_quotas[p.lecturer_index])"
        " or (loadP(L, p.project_index) < m.proj_upper_quotas[p.project_index] and loadL(L, p.lecturer_index) >= m.lec_upper_quotas[p.lecturer_index]"
        "     and ((a != None and a.lecturer_index == p.lecturer_index) or worse_at_L(L, p.lecturer_index, p.rank_lecturer)))"
        " or (loadP(L, p.project_index) >= m.proj_upper_quotas[p.project_index] and worse_at_P(L, p.project_index, p.rank_lecturer)))"),
    'two_sided': (['m'], "forall(i, 0, len(m.pairs), forall(c, 0, len(m.pairs[i]), has(m.pairs[i][c], 'rank_lecturer')))"),

    # validity of a list L of matched pairs (DESIGN section 5); pc = project closures allowed
    'valid_list': (['m', 'L', 'pc'],
        "forall(s, 0, m.num_students, loadS(L, s) <= 1)"
        " and forall(j, 0, m.num_projects, (pc and loadP(L, j) == 0) or (m.proj_lower_quotas[j] <= loadP(L, j) and loadP(L, j) <= m.proj_upper_quotas[j]))"
        " and forall(k, 0, m.num_lecturers, m.lec_lower_quotas[k] <= loadL(L, k) and loadL(L, k) <= m.lec_upper_quotas[k])"),
    # strict lexicographic comparisons of profiles
    'more_greedy': (['a', 'b'], 'exists(i, 0, len(a), a[i] > b[i] and forall(j, 0, i, a[j] == b[j]))'),
    'more_generous': (['a', 'b'], 'exists(i, 0, len(a), a[i] < b[i] and forall(j, i + 1, len(a), a[j] == b[j]))'),

    'is_max_rank': (['m', 'r'], 'forall(i, 0, len(m.pairs), forall(c, 0, len(m.pairs[i]), m.pairs[i][c].rank_student <= r))'
                                ' and (r == 0 or exists(i, 0, len(m.pairs), exists(c, 0, len(m.pairs[i]), m.pairs[i][c].rank_student == r)))'),
    'all_found': (['L'], 'forall(q, 0, len(L), L[q] != None)'),

    # ---- LP vocabulary: chi(p) = value of p's decision variable under the ghost valuation
    'chi': (['p'], 'nu(p.lp_var)'),
    'varsum': (['row'], 'Sum(q, len(row), nu(row[q].lp_var))', 'parametric'),
    # the same sum under the values reported by the last solve
    'solsum_upto': (['row', 'n'], 'Sum(q, n, solved(row[q].lp_var))', 'parametric'),
    'solsum': (['row'], 'solsum_upto(row, len(row))'),
    'sol_terms': (['row', 'n'], 'lam(q, n, solved(row[q].lp_var))', 'parametric'),
    # the same sum for an ARBITRARY weight W of the list entries (W is uninterpreted where the lists are built; a composition lemma
    # instantiates it with the variable's value) and its summands as a list (binding of SUM/ext when a list grows)
    'wsum': (['row'], 'Sum(q, len(row), W(row[q]))', 'parametric'),
    'w_terms': (['row', 'n'], 'lam(q, n, W(row[q]))', 'parametric'),
    'var_terms': (['row', 'n'], 'lam(q, n, nu(row[q].lp_var))', 'parametric'),
    # every student's row is a partial assignment: its variables sum to 0 or 1
    'rows_partial': (['m'], 'forall(i, 0, len(m.pairs), 0 <= varsum(m.pairs[i]) and varsum(m.pairs[i]) <= 1)'),
    'pairs_binary': (['m'], 'forall(i, 0, len(m.pairs), forall(c, 0, len(m.pairs[i]), 0 <= nu(m.pairs[i][c].lp_var) and nu(m.pairs[i][c].lp_var) <= 1))'),
    'has_vars': (['rows'], "forall(i, 0, len(rows), forall(c, 0, len(rows[i]), rows[i][c] != None and has(rows[i][c], 'lp_var')))"),

    # rows list projects in non-decreasing rank order (ties share a rank)
    'rows_sorted': (['m'], 'forall(i, 0, len(m.pairs), forall(a, 0, len(m.pairs[i]), forall(b, a, len(m.pairs[i]), m.pairs[i][a].rank_student <= m.pairs[i][b].rank_student)))'),
    'lists_two_sided': (['rows'], "forall(i, 0, len(rows), forall(c, 0, len(rows[i]), has(rows[i][c], 'rank_lecturer') and has(rows[i][c], 'studentID') and has(rows[i][c], 'projectID')))"),
    'stab_vars': (['rows'], "forall(i, 0, len(rows), forall(c, 0, len(rows[i]), has(rows[i][c], 'alpha_var') and has(rows[i][c], 'beta_var')))"),

    'is_max_luq': (['x'], 'forall(k, 0, self.model.num_lecturers, self.model.lec_upper_quotas[k] <= x) and exists(k, 0, self.model.num_lecturers, self.model.lec_upper_quotas[k] == x)'),
}
