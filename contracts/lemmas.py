"""Lemmas over contracts (composition obligations and properties of spec functions).
Each: vars (symbolic variables), hyps, goals.  A hypothesis/goal may be ('ensures'|'requires', contract key, binding)."""
GS = 'generator_shared:'; FIO = 'fileIO:'
LEMMAS = {
 # ---- C13: what the writer's postcondition (token kinds = spec_kind) means in the words of the property
 'C13/writer-shape': dict(
    vars={'T': ('list', 'int'), 'T2': ('list', 'int'), 'n': 'int'},
    defs={'K': (['j'], 'spec_kind(T, j, n)'),
          'D': (['j'], 'ite(in_tie_at(T, j), 1, 0)')},          # nesting depth just before token j
    hyps=['n >= 0', 'len(T) >= n', 'len(T2) >= n'],
    goals=[
      ('depth-starts-at-0', 'implies(n > 0, D(0) == 0)'),
      ('open-raises-depth-from-0-to-1', 'forall(j, 0, n, implies(K(j) == 1, D(j) == 0 and j + 1 < n and D(j+1) == 1))'),
      ('close-lowers-depth-from-1-to-0', 'forall(j, 0, n, implies(K(j) == 2, D(j) == 1 and (j == n - 1 or D(j+1) == 0)))'),
      ('plain-keeps-depth', 'forall(j, 0, n - 1, implies(K(j) == 0, D(j+1) == D(j)))'),
      ('balanced-at-end', 'implies(n > 0, K(n-1) != 1 and implies(D(n-1) == 1, K(n-1) == 2) and implies(K(n-1) == 0, D(n-1) == 0))'),
      ('runs-have-at-least-two-entries', 'forall(j, 0, n, implies(K(j) == 1, j + 1 < n and K(j+1) != 1))'),
      ('inside-run-iff-tied', 'forall(j, 0, n - 1, (D(j+1) == 1) == (T[j] != 0))'),
      ('runs-are-maximal', 'forall(j, 0, n - 1, implies(K(j) == 2, T[j] == 0))'),
      ('last-decision-irrelevant',
       'implies(forall(j, 0, n - 1, (T[j] != 0) == (T2[j] != 0)), forall(j, 0, n, spec_kind(T, j, n) == spec_kind(T2, j, n)))'),
    ]),
 # ---- C13: writer postcondition is the reader precondition; reader postcondition is the property
 'C13/compose': dict(
    vars={'pref': ('list', 'int'), 'ties': ('list', 'int'), 'toks': ('list', 'tok'),
          'vals': ('list', 'int'), 'ranks': ('list', 'int')},
    hyps=['len(ties) >= len(pref)',
          ('ensures', GS + 'create_string_pref', {'pref_list': 'pref', 'ties_indicators': 'ties', 'result': 'toks'})],
    goals=[
      ('requires', FIO + '_get_simple_pref_list_and_ranks', {'pref_list': 'toks', 'ties': 'ties'}),
      ('assume', ('ensures', FIO + '_get_simple_pref_list_and_ranks',
                  {'pref_list': 'toks', 'ties': 'ties', 'result0': 'vals', 'result1': 'ranks'})),
      ('order-preserved', 'len(vals) == len(pref) and forall(j, 0, len(pref), vals[j] == pref[j])'),
      ('same-rank-iff-tied', 'forall(j, 0, len(pref) - 1, (ranks[j+1] == ranks[j]) == (ties[j] != 0))'),
      ('ranks-start-at-1', 'implies(len(pref) > 0, ranks[0] == 1)'),
      ('ranks-increase-by-one-between-groups', 'forall(j, 0, len(pref) - 1, implies(ties[j] == 0, ranks[j+1] == ranks[j] + 1))'),
    ]),

 # ---- C17: a sum of positive terms is positive
 'C17/sum-positive': dict(
    vars={'d': ('list', 'real'), 'n': 'int'},
    hyps=['n >= 1', 'forall(j, 0, n, d[j] > 0)'],
    induct=('m', '1', 'n', 'SumR(j, m, d[j]) > 0')),
 # ---- C17: dividing every term by S divides the sum by S
 'C17/scaled-sum': dict(
    vars={'d': ('list', 'real'), 'r': ('list', 'real'), 'n': 'int', 'S': 'real'},
    hyps=['n >= 0', 'forall(j, 0, n, r[j] * S == d[j])'],
    induct=('m', '0', 'n', 'SumR(j, m, r[j]) * S == SumR(j, m, d[j])')),

 # ---- C08: the block sizes of create_project_lecturers / create_quotas are the even spreading
 'C08/shares': dict(
    vars={'n2': 'int', 'n3': 'int'},
    defs={'P': (['k'], 'k * (n2 // n3) + min(k, n2 % n3)'),
          'share': (['k'], 'n2 // n3 + ite(k < n2 % n3, 1, 0)')},
    hyps=['n2 >= 0', 'n3 >= 1'],
    goals=[('block-size-is-share', 'forall(k, 0, n3, P(k+1) - P(k) == share(k))'),
           ('starts-at-0', 'P(0) == 0'),
           ('total', 'P(n3) == n2'),
           ('larger-shares-first', 'forall(k, 0, n3 - 1, share(k) >= share(k+1))'),
           ('spread-at-most-one', 'forall(k, 0, n3, forall(l, 0, n3, share(k) - share(l) <= 1))'),
           ('blocks-increase', 'forall(k, 0, n3, P(k) <= P(k+1))')]),
 # ---- C08: spreading is monotone in the total, so lower <= target <= upper holds pointwise
 'C08/spread-monotone': dict(
    vars={'n': 'int', 'a': 'int', 'b': 'int'},
    defs={'share': (['s', 'k'], 's // n + ite(k < s % n, 1, 0)')},
    hyps=['n >= 1', '0 <= a', 'a <= b'],
    goals=[('pointwise', 'forall(k, 0, n, share(a, k) <= share(b, k))')]),

 # ---- LISTSET: the fact schemas pyvc/listsets.py instantiates at list operations, justified from the definitions
 #      elems(L) = {L[t] | t < len L},  pelems(L,k) = {L[t] | t < min(k, len L)},  dupfree(L) = no repeated entry
 'LISTSET/empty-append': dict(
    vars={'L': ('list', 'int'), 'v': 'int', 'x': 'int'},
    defs={'E': (['A', 'y'], 'exists(t, 0, len(A), A[t] == y)'),
          'D': (['A'], 'forall(t, 0, len(A), forall(u, 0, len(A), implies(A[t] == A[u], t == u)))')},
    hyps=[],
    goals=[('empty-has-no-element', 'implies(len(L) == 0, not E(L, x) and D(L))'),
           ('append-adds-exactly-v', 'E(appended(L, v), x) == (E(L, x) or x == v)'),
           ('append-keeps-dupfree-iff-new', 'D(appended(L, v)) == (D(L) and not E(L, v))')]),
 'LISTSET/permute': dict(
    vars={'L': ('list', 'int'), 'N': ('list', 'int'), 'pi': ('list', 'int'), 'sg': ('list', 'int'), 'x': 'int'},
    defs={'E': (['A', 'y'], 'exists(t, 0, len(A), A[t] == y)'),
          'D': (['A'], 'forall(t, 0, len(A), forall(u, 0, len(A), implies(A[t] == A[u], t == u)))')},
    hyps=['len(N) == len(L)',
          'forall(t, 0, len(L), 0 <= pi[t] and pi[t] < len(L) and sg[pi[t]] == t and N[t] == L[pi[t]])',
          'forall(u, 0, len(L), 0 <= sg[u] and sg[u] < len(L) and pi[sg[u]] == u and N[sg[u]] == L[u])'],
    goals=[('same-elements', 'E(N, x) == E(L, x)'), ('dupfree-preserved', 'D(N) == D(L)')]),
 'LISTSET/iterate': dict(
    vars={'L': ('list', 'int'), 'k': 'int', 'x': 'int'},
    defs={'E': (['A', 'y'], 'exists(t, 0, len(A), A[t] == y)'),
          'PE': (['A', 'm', 'y'], 'exists(t, 0, min(m, len(A)), A[t] == y)'),
          'D': (['A'], 'forall(t, 0, len(A), forall(u, 0, len(A), implies(A[t] == A[u], t == u)))')},
    hyps=['0 <= k', 'k < len(L)'],
    goals=[('prefix-0-empty', 'not PE(L, 0, x)'),
           ('prefix-step', 'PE(L, k + 1, x) == (PE(L, k, x) or x == L[k])'),
           ('entry-is-element', 'E(L, L[k])'),
           ('dupfree-entry-not-in-prefix', 'implies(D(L), not PE(L, k, L[k]))'),
           ('full-prefix-is-all', 'PE(L, len(L), x) == E(L, x)')]),

 # ---- C12 (SPA): composing create_student_lec_lists with create_pref_lists_from_other_lists
 'C12/spa-compose': dict(
    vars={'pls': ('list', ('list', 'int')), 'PL': ('list', 'int'), 'n3': 'int', 'ties2': 'real',
          'sll': ('list', ('list', 'int')), 'lec': ('list', ('list', 'int')), 'lt': ('list', ('list', 'int'))},
    hyps=['n3 >= 0', '0 <= ties2', 'ties2 <= 1',
          ('requires', 'generator_spa:Generator_spa.create_student_lec_lists', {'pref_lists_students': 'pls', 'project_lecturers': 'PL', 'n3': 'n3'}),
          ('ensures', 'generator_spa:Generator_spa.create_student_lec_lists', {'pref_lists_students': 'pls', 'project_lecturers': 'PL', 'n3': 'n3', 'result': 'sll'})],
    goals=[('requires', GS + 'create_pref_lists_from_other_lists', {'pref_lists_agent1': 'sll', 'n2': 'n3', 'ties2': 'ties2'}),
           ('assume', ('ensures', GS + 'create_pref_lists_from_other_lists',
                       {'pref_lists_agent1': 'sll', 'n2': 'n3', 'ties2': 'ties2', 'result0': 'lec', 'result1': 'lt', 'result': 'lec'})),
           ('lecturer-lists-student-iff-student-ranks-one-of-their-projects',
            'forall(l, 0, n3, forall(v, (v in elems(lec[l])) == (1 <= v and v <= len(pls) and '
            'exists(proj, proj in elems(pls[v - 1]) and PL[proj - 1] == l + 1))))'),
           ('each-student-once', 'forall(l, 0, n3, dupfree(lec[l]))')]),

}

# ---- C16: counting lemma over the nine criterion slots ("two criteria share a position" <=> fewer occupied positions
#      than requested criteria).  z3 cannot do the pigeonhole argument in one query, so it is staged: one generic step
#      (adding a slot to an arbitrary occupancy vector) instantiated nine times, then linear arithmetic.
_N = 9
def _sum(ts): return '(' + ' + '.join('ite(%s, 1, 0)' % t for t in ts) + ')'
LEMMAS['C16/occupy-step'] = dict(
    vars=dict([('o%d' % i, 'bool') for i in range(1, _N + 1)] + [('p', 'bool'), ('q', 'int')]),
    hyps=['implies(p, 1 <= q and q <= %d)' % _N],
    goals=[('adding-a-slot',
            _sum('o%d or (p and q == %d)' % (i, i) for i in range(1, _N + 1)) + ' == ' + _sum('o%d' % i for i in range(1, _N + 1)) +
            ' + ite(p and not (' + ' or '.join('(q == %d and o%d)' % (i, i) for i in range(1, _N + 1)) + '), 1, 0)')])
_defs = {}
for _k in range(0, _N + 1):       # occ_k(i): position i is taken by one of the first k slots
    _defs['occ%d' % _k] = (['i'], ' or '.join(['False'] + ['(p%d and q%d == i)' % (u, u) for u in range(_k)]))
    _defs['cnt%d' % _k] = ([], _sum('occ%d(%d)' % (_k, i) for i in range(1, _N + 1)))
for _s in range(_N):
    _defs['first%d' % _s] = ([], ' and '.join(['True'] + ['not (p%d and q%d == q%d)' % (u, u, _s) for u in range(_s)]))
_defs['distinct'] = ([], ' and '.join('implies(p%d and p%d, q%d != q%d)' % (s, u, s, u) for s in range(_N) for u in range(s + 1, _N)))
# abstract counting chain: c0 = 0, c_{k+1} = c_k + [b_k]  ==>  c_N = sum [b_k]
LEMMAS['C16/chain'] = dict(
    vars=dict([('c%d' % k, 'int') for k in range(_N + 1)] + [('b%d' % k, 'bool') for k in range(_N)]),
    hyps=['c0 == 0'] + ['c%d == c%d + ite(b%d, 1, 0)' % (k + 1, k, k) for k in range(_N)],
    goals=[('telescoped', 'c%d == ' % _N + _sum('b%d' % k for k in range(_N)))])
# abstract: fewer "first" requests than requests  <=>  some request is not first
LEMMAS['C16/all-first'] = dict(
    vars=dict([('p%d' % k, 'bool') for k in range(_N)] + [('f%d' % k, 'bool') for k in range(_N)]),
    hyps=[],
    goals=[('count-equal-iff-all-first', '(' + _sum('p%d and f%d' % (k, k) for k in range(_N)) + ' == ' + _sum('p%d' % k for k in range(_N)) + ') == (' +
            ' and '.join('implies(p%d, f%d)' % (k, k) for k in range(_N)) + ')')])
LEMMAS['C16/pigeonhole'] = dict(
    vars=dict([('p%d' % s, 'bool') for s in range(_N)] + [('q%d' % s, 'int') for s in range(_N)]),
    defs=_defs,
    hyps=['implies(p%d, 1 <= q%d and q%d <= %d)' % (s, s, s, _N) for s in range(_N)],
    uses=[('C16/occupy-step', dict([('o%d' % i, 'occ%d(%d)' % (k, i)) for i in range(1, _N + 1)] + [('p', 'p%d' % k), ('q', 'q%d' % k)]))
          for k in range(_N)] +
         # the stage equalities cnt_{k+1} = cnt_k + [p_k and first_k] are the hypotheses of the abstract chain (each one a small VC)
         [('C16/chain', dict([('c%d' % k, 'cnt%d()' % k) for k in range(_N + 1)] + [('b%d' % k, 'p%d and first%d()' % (k, k)) for k in range(_N)])),
          ('C16/all-first', dict([('p%d' % k, 'p%d' % k) for k in range(_N)] + [('f%d' % k, 'first%d()' % k) for k in range(_N)]))],
    goals=[('distinct-iff-all-first', 'distinct() == (' + ' and '.join('implies(p%d, first%d())' % (k, k) for k in range(_N)) + ')', 'then-assume'),
           ('fewer-occupied-than-requested-iff-shared-position',
            '(cnt%d() == ' % _N + _sum('p%d' % s for s in range(_N)) + ') == distinct()', None,
            ['C16/chain/telescoped', 'C16/all-first/count-equal-iff-all-first', 'distinct-iff-all-first'])])

# ---- SUM: sums of pointwise equal sequences are equal (extensionality), by induction on the length
LEMMAS['SUM/ext'] = dict(
    vars={'f': ('list', 'int'), 'g': ('list', 'int'), 'n': 'int'},
    hyps=['n >= 0', 'forall(j, 0, n, f[j] == g[j])'],
    induct=('m', '0', 'n', 'Sum(j, m, f[j]) == Sum(j, m, g[j])'))

# ---- Count bounds: the engine attaches the instance  0 <= Count(q, n, c(q)) <= max(n, 0)  to every Count term (pyvc/lemmas.py named_array)
LEMMAS['SUM/count-bounds'] = dict(
    vars={'f': ('list', 'int'), 'n': 'int'},
    hyps=['n >= 0', 'forall(j, 0, n, 0 <= f[j] and f[j] <= 1)'],
    induct=('m', '0', 'n', '0 <= Sum(j, m, f[j]) and Sum(j, m, f[j]) <= m'))

LEMMAS['SUM/nonneg'] = dict(
    vars={'f': ('list', 'int'), 'n': 'int'},
    hyps=['n >= 0', 'forall(j, 0, n, f[j] >= 0)'],
    induct=('m', '0', 'n', 'Sum(j, m, f[j]) >= 0'))

# ---- every term of a sum of non-negative terms is at most the sum
LEMMAS['SUM/term-le'] = dict(
    vars={'f': ('list', 'int'), 'n': 'int'},
    hyps=['n >= 0', 'forall(j, 0, n, f[j] >= 0)'],
    induct=('m', '0', 'n', 'forall(q, 0, m, f[q] <= Sum(j, m, f[j]))'))

# ---- a prefix of a sum of non-negative terms is at most the whole sum
LEMMAS['SUM/prefix-le'] = dict(
    vars={'f': ('list', 'int'), 'k': 'int', 'n': 'int'},
    hyps=['0 <= k', 'k <= n', 'forall(j, 0, n, f[j] >= 0)'],
    induct=('m', 'k', 'n', 'Sum(j, k, f[j]) <= Sum(j, m, f[j])'))

# ---- C07: the strict lexicographic order is total on profiles of one length: if neither is more greedy (generous) than the
#      other they are equal entry by entry.  (run's postcondition states attainment of the greedy profile through the order.)
LEMMAS['C07/greedy-order-total'] = dict(
    vars={'a': ('list', 'int'), 'b': ('list', 'int'), 'n': 'int'},
    hyps=['n >= 0', 'len(a) == n', 'len(b) == n', 'not more_greedy(a, b)', 'not more_greedy(b, a)'],
    induct=('m', '0', 'n', 'forall(j, 0, m, a[j] == b[j])'))
LEMMAS['C07/generous-order-total'] = dict(
    vars={'a': ('list', 'int'), 'b': ('list', 'int'), 'n': 'int'},
    hyps=['n >= 0', 'len(a) == n', 'len(b) == n', 'not more_generous(a, b)', 'not more_generous(b, a)'],
    induct=('m', '0', 'n', 'forall(j, n - m, n, a[j] == b[j])'))

# ---- C05: in a list with non-decreasing ranks, "entries with rank <= aim" is a prefix
LEMMAS['C05/prefix-filter'] = dict(
    vars={'r': ('list', 'int'), 'x': ('list', 'int'), 'n': 'int', 'idx': 'int', 'aim': 'int'},
    hyps=['0 <= idx', 'idx <= n',
          'forall(a, 0, n, forall(b, a, n, r[a] <= r[b]))',
          'forall(q, 0, idx, r[q] <= aim)', 'idx == n or r[idx] > aim'],
    induct=('m', '0', 'n', 'Sum(q, m, ite(r[q] <= aim, x[q], 0)) == Sum(q, min(m, idx), x[q])'))

# ---- FLAT (ASSUMED, T11): chain.from_iterable concatenates, so a sum over the concatenation is the sum of the row sums.
#      g is an arbitrary summand indexed by object reference.  (Provable by induction over the rows from a defining
#      axiom of concatenation; not done here, therefore listed as an assumption in every evidence file that uses it.)
LEMMAS['FLAT/sum'] = dict(
    assumed=True,
    vars={'rows': ('list', ('list', 'ref')), 'g': ('list', 'int')},
    hyps=[],
    goals=[('sum-over-concatenation', 'Sum(q, len(flat(rows)), g[flat(rows)[q]]) == Sum(i, len(rows), Sum(c, len(rows[i]), g[rows[i][c]]))')])

# ---- C09: what the generator guarantees is what the reader needs
LEMMAS['C09/rank-keys'] = dict(
    vars={'pls': ('list', ('list', 'int')), 'PL': ('list', 'int'), 'n3': 'int', 'lec': ('list', ('list', 'int'))},
    hyps=['n3 >= 0', 'len(lec) == n3',
          'forall(y, 0, len(PL), 1 <= PL[y] and PL[y] <= n3)',
          'forall(s, 0, len(pls), forall(x, implies(x in elems(pls[s]), 1 <= x and x <= len(PL))))',
          # conclusion of C12/spa-compose: lecturer l lists student v iff v ranks a project of l
          'forall(l, 0, n3, forall(v, (v in elems(lec[l])) == (1 <= v and v <= len(pls) and exists(proj, proj in elems(pls[v - 1]) and PL[proj - 1] == l + 1))))'],
    goals=[('every-(lecturer,student)-the-reader-looks-up-is-on-that-lecturers-list',
            'forall(s, 0, len(pls), forall(proj, implies(proj in elems(pls[s]), (s + 1) in elems(lec[PL[proj - 1] - 1]))))')])
LEMMAS['C09/quota-order'] = dict(
    vars={'n': 'int', 'llq': 'int', 'lt': 'int', 'luq': 'int'},
    defs={'share': (['s', 'k'], 's // n + ite(k < s % n, 1, 0)')},
    hyps=['n >= 1', '0 <= llq', 'llq <= lt', 'lt <= luq'],
    uses=[('C08/spread-monotone', {'n': 'n', 'a': 'llq', 'b': 'lt'}), ('C08/spread-monotone', {'n': 'n', 'a': 'lt', 'b': 'luq'})],
    goals=[('lower-target-upper-pointwise', 'forall(k, 0, n, 0 <= share(llq, k) and share(llq, k) <= share(lt, k) and share(lt, k) <= share(luq, k))')])

# ---- SUM: monotonicity and the squeeze lemma (both by induction on the length)
LEMMAS['SUM/le'] = dict(
    vars={'f': ('list', 'int'), 'g': ('list', 'int'), 'n': 'int'},
    hyps=['n >= 0', 'forall(j, 0, n, f[j] <= g[j])'],
    induct=('m', '0', 'n', 'Sum(j, m, f[j]) <= Sum(j, m, g[j])'))
LEMMAS['SUM/squeeze'] = dict(
    vars={'f': ('list', 'int'), 'g': ('list', 'int'), 'n': 'int'},
    hyps=['n >= 0', 'forall(j, 0, n, f[j] <= g[j])'],
    # after m terms the total gap dominates every single gap seen so far (and is non-negative)
    induct=('m', '0', 'n', 'Sum(j, m, g[j]) - Sum(j, m, f[j]) >= 0 and forall(q, 0, m, g[q] - f[q] <= Sum(j, m, g[j]) - Sum(j, m, f[j]))'),
    goals=[('equal-sums-force-pointwise-equality', 'implies(Sum(j, n, f[j]) >= Sum(j, n, g[j]), forall(q, 0, n, f[q] == g[q]))')])
LEMMAS['SUM/const'] = dict(
    vars={'n': 'int', 'cst': 'int'}, hyps=['n >= 0'],
    induct=('m', '0', 'n', 'Sum(j, m, cst) == m * cst'))

# ---- C01: the closure-gated constraint pair means "closed and empty, or within the quotas"
LEMMAS['C01/closure-pair'] = dict(
    vars={'S': 'int', 'lq': 'int', 'uq': 'int'},
    hyps=['S >= 0', 'lq >= 0'],
    goals=[('exists-closure-value-iff-empty-or-within-quotas',
            'exists(cl, 0, 2, S + cl * lq >= lq and S + cl * uq <= uq) == (S == 0 or (lq <= S and S <= uq))')])

# ---- C05: the logical core of the stability encoding, over abstract list quantities of one acceptable pair p = (s_i, p_j), l_k:
#      x[q] in {0,1}  value of the q-th pair of l_k's list;  cnd[q] = 1 iff l_k ranks that student at least as well as s_i and it is
#      another student;  prj[q] = 1 iff that pair is for p_j;  A = number of s_i's assigned pairs at rank <= rank(p) (0 or 1);
#      d, c = capacities of l_k, p_j.  Not blocking  <=>  A >= 1 or Lk >= d or Pj >= c  <=>  alpha, beta in {0,1} exist.
_C05 = {'fl': (['q'], 'ite(cnd[q] == 1, x[q], 0)'), 'fp': (['q'], 'ite(cnd[q] == 1 and prj[q] == 1, x[q], 0)'), 'gp': (['q'], 'ite(prj[q] == 1, x[q], 0)'),
        'Lk': ([], 'Sum(q, n, fl(q))'), 'Pj': ([], 'Sum(q, n, fp(q))'), 'loadL': ([], 'Sum(q, n, x[q])'), 'loadP': ([], 'Sum(q, n, gp(q))'),
        'someone_not_preferred': ([], 'exists(q, 0, n, x[q] == 1 and cnd[q] != 1)'),
        'someone_at_pj_not_preferred': ([], 'exists(q, 0, n, x[q] == 1 and prj[q] == 1 and cnd[q] != 1)'),
        'blocks': ([], 'A == 0 and ((loadP() < c and loadL() < d) or (loadP() < c and loadL() >= d and someone_not_preferred())'
                       ' or (loadP() >= c and someone_at_pj_not_preferred()))')}
LEMMAS['C05/no-blocking-iff'] = dict(
    vars={'x': ('list', 'int'), 'cnd': ('list', 'int'), 'prj': ('list', 'int'), 'n': 'int', 'd': 'int', 'c': 'int', 'A': 'int'},
    defs=_C05,
    hyps=['n >= 0', 'forall(q, 0, n, x[q] == 0 or x[q] == 1)', 'A == 0 or A == 1', 'd >= 0', 'c >= 0',
          ('capacities-respected', 'loadL() <= d and loadP() <= c')],
    uses=[('SUM/squeeze', {'f': 'lam(q, n, fl(q))', 'g': 'lam(q, n, x[q])', 'n': 'n'}),
          ('SUM/squeeze', {'f': 'lam(q, n, fp(q))', 'g': 'lam(q, n, gp(q))', 'n': 'n'}),
          ('SUM/ext', {'f': 'lam(q, n, fl(q))', 'g': 'lam(q, n, x[q])', 'n': 'n'}, 'if-applicable'),
          ('SUM/ext', {'f': 'lam(q, n, fp(q))', 'g': 'lam(q, n, gp(q))', 'n': 'n'}, 'if-applicable')],
    goals=[('not-blocking-iff-one-of-three', '(not blocks()) == (A >= 1 or Lk() >= d or Pj() >= c)')])
LEMMAS['C05/alpha-beta-gamma'] = dict(
    vars={'Lk': 'int', 'Pj': 'int', 'd': 'int', 'c': 'int', 'A': 'int'},
    hyps=['Lk >= 0', 'Pj >= 0', 'd >= 0', 'c >= 0', 'A == 0 or A == 1'],
    goals=[('alpha-beta-exist-iff-one-of-three',
            'exists(al, 0, 2, exists(be, 0, 2, (0 - d) * al + Lk >= 0 and (0 - c) * be + Pj >= 0 and (1 - A) - al - be <= 0)) == (A >= 1 or Lk >= d or Pj >= c)')])
# ---- C02: witness-in-bounds for the size-type objective variables: a sum of n row sums each <= 1 is <= n
LEMMAS['C02/size-bound'] = dict(
    vars={'r': ('list', 'int'), 'n': 'int'},
    hyps=['n >= 0', 'forall(i, 0, n, 0 <= r[i] and r[i] <= 1)'],
    uses=[('SUM/le', {'f': 'r', 'g': 'lam(i, n, 1)', 'n': 'n'}), ('SUM/const', {'n': 'n', 'cst': '1'}), ('SUM/le', {'f': 'lam(i, n, 0)', 'g': 'r', 'n': 'n'}), ('SUM/const', {'n': 'n', 'cst': '0'})],
    goals=[('number-of-assigned-students-between-0-and-n', '0 <= Sum(i, n, r[i]) and Sum(i, n, r[i]) <= n')])

# ---- C01: the reported matching is valid.  Composition of (a) Solver.solve: every valuation satisfying the solved program is binary and
#      satisfies the row / project-list / lecturer-list constraints; (b) set_project_lists / set_lecturer_lists: for EVERY weight of pair
#      objects the weights on list j add up to the weights of the pairs with index j - instantiated here with W(x) := nu(x.lp_var);
#      (c) T3 made explicit (identify_solution): nu is the valuation the solver reported with status Optimal, so it satisfies the program.
#      Conclusion: the two solution preconditions of Model.get_results, from which get_results proves "the printed matching is valid".
NUW = {'W': (['x'], 'nu(x.lp_var)')}
LEMMAS['C01/reported-matching-valid'] = dict(
    vars={'S': ('obj', 'Solver')}, identify_solution=True,
    hyps=['sizes_ok(S.model)', 'pairs_ok(S.model)', 'has_vars(S.model.pairs)',
          'len(S.model.project_lists) == S.model.num_projects', 'len(S.model.lecturer_lists) == S.model.num_lecturers',
          'not S.options_parser.solver_options[Solver_options.BRUTEFORCE]',
          ('the-reported-valuation-satisfies-the-program', 'feas()'),
          ('ensures', 'solver:Solver.solve', {'self': 'S'}, None, ['lp-mode-every-solution-of-the-program-is-binary-and-within-the-quotas']),
          ('ensures', 'model:Model.set_project_lists', {'self': 'S.model'}, NUW, ['sum-over-each-list-is-the-sum-over-the-pairs-with-that-index-for-every-weight']),
          ('ensures', 'model:Model.set_lecturer_lists', {'self': 'S.model'}, NUW, ['sum-over-each-list-is-the-sum-over-the-pairs-with-that-index-for-every-weight'])],
    goals=[('requires', 'model:Model.get_results', {'self': 'S.model', 'pc': 'S.options_parser.instance_options[Instance_options.PC]'}, None,
            ['optimal-solution-is-binary', 'optimal-solution-respects-the-quotas'])])

# ---- C10 -> C01/C02: what import_model leaves behind is what Solver.solve requires of the derived lists.  The three setters'
#      postconditions (element-set view) plus the list read rule (an entry of a list is an element of it: fact schema LISTSET/iterate)
#      give "every entry of every derived list is one of the model's pairs".
def _read_rule(lst): return ('forall(j, 0, len(S.model.%s), forall(q, 0, len(S.model.%s[j]), ref(S.model.%s[j][q]) in elems(S.model.%s[j])))' % (lst, lst, lst, lst))
LEMMAS['C10/derived-lists-compose'] = dict(
    vars={'S': ('obj', 'Solver')}, theory=['listsets'],
    hyps=['sizes_ok(S.model)', 'pairs_ok(S.model)',
          ('ensures', 'model:Model.set_project_lists', {'self': 'S.model'}, None, ['one-list-per-project', 'project-list-holds-exactly-the-pairs-of-that-project']),
          ('ensures', 'model:Model.set_lecturer_lists', {'self': 'S.model'}, None, ['one-list-per-lecturer', 'lecturer-list-holds-exactly-the-pairs-of-that-lecturer']),
          ('ensures', 'model:Model.set_rank_lists', {'self': 'S.model'}, None, ['rank-list-holds-exactly-the-pairs-of-that-rank']),
          ('list-read-rule-projects', _read_rule('project_lists')), ('list-read-rule-lecturers', _read_rule('lecturer_lists')), ('list-read-rule-ranks', _read_rule('rank_lists'))],
    goals=[('requires', 'solver:Solver.solve', {'self': 'S'}, None, ['one-list-per-project', 'one-list-per-lecturer', 'derived-lists-hold-model-pairs'])])


# ---- C03 / C04: the set-level steps, over an uninterpreted sort V of valuations of ALL LP variables.
#      F   = the valuations satisfying the program before the criterion;  m = the documented measure (a function of the valuation);
#      o   = the value of the criterion's fresh objective variable;  lo..hi = its declared bounds.
#      LINK   (each criterion's exact postcondition):   F1(v) <=> F(v) and lo <= o(v) <= hi and m(v) == o(v)
#      SOLVE  (T3):                                      the solver reports some s in F1 with o(s) maximal over F1
#      FREEZE (perform_optimisation's postcondition):    F2(v) <=> F1(v) and o(v) >= o(s)
def _freeze_opt(z3):
    V = z3.DeclareSort('Valuation'); B = z3.BoolSort(); I = z3.IntSort()
    F, F1, F2 = (z3.Function(n, V, B) for n in ('F', 'F1', 'F2')); m, o = z3.Function('m', V, I), z3.Function('o', V, I)
    ext = z3.Function('ext', V, V)          # the valuation v with the fresh objective variable set to m(v) (all other variables unchanged)
    lo, hi = z3.Ints('lo hi'); s = z3.Const('s', V); v, w = z3.Consts('v w', V)
    link = z3.ForAll([v], F1(v) == z3.And(F(v), lo <= o(v), o(v) <= hi, m(v) == o(v)))
    solve = z3.And(F1(s), z3.ForAll([v], z3.Implies(F1(v), o(v) <= o(s))))
    freeze = z3.ForAll([v], F2(v) == z3.And(F1(v), o(v) >= o(s)))
    # the objective variable is fresh: re-setting it changes neither membership in F nor the measure
    fresh = z3.ForAll([v], z3.And(F(ext(v)) == F(v), m(ext(v)) == m(v), o(ext(v)) == m(v)), patterns=[ext(v)])
    wib = z3.ForAll([v], z3.Implies(F(v), z3.And(lo <= m(v), m(v) <= hi)))          # witness-in-bounds (C02's open obligation)
    H = [link, solve, freeze]
    return [
      ('frozen-set-is-the-optimal-part-of-the-linked-set', H, z3.ForAll([v], F2(v) == z3.And(F1(v), z3.ForAll([w], z3.Implies(F1(w), m(w) <= m(v)))))),
      ('frozen-set-is-not-empty', H, F2(s)),
      ('with-witness-in-bounds-the-optimum-is-over-all-feasible-valuations', H + [fresh, wib],
       z3.ForAll([v], z3.Implies(F2(v), z3.And(F(v), z3.ForAll([w], z3.Implies(F(w), m(w) <= m(v))))))),
      ('with-witness-in-bounds-linking-excludes-no-feasible-valuation', [link, fresh, wib], z3.ForAll([v], z3.Implies(F(v), F1(ext(v))))),
      ('with-witness-in-bounds-every-optimal-feasible-valuation-survives', H + [fresh, wib],
       z3.ForAll([v], z3.Implies(z3.And(F(v), z3.ForAll([w], z3.Implies(F(w), m(w) <= m(v)))), F2(ext(v))))),
    ]
LEMMAS['C03/freeze-opt'] = dict(raw=_freeze_opt)


def _lex_chain(z3):
    V = z3.DeclareSort('Valuation'); B = z3.BoolSort(); I = z3.IntSort()
    A, Bs, C = (z3.Function(n, V, B) for n in ('A', 'B', 'C')); m1, m2 = z3.Function('m1', V, I), z3.Function('m2', V, I)
    v, w = z3.Consts('v w', V)
    best1 = z3.ForAll([v], Bs(v) == z3.And(A(v), z3.ForAll([w], z3.Implies(A(w), m1(w) <= m1(v)))))        # after the first criterion (freeze-opt)
    best2 = z3.ForAll([v], C(v) == z3.And(Bs(v), z3.ForAll([w], z3.Implies(Bs(w), m2(w) <= m2(v)))))      # after the second, started from B
    lex = lambda x: z3.And(A(x), z3.ForAll([w], z3.Implies(A(w), z3.Or(m1(w) < m1(x), z3.And(m1(w) == m1(x), m2(w) <= m2(x))))))
    return [
      ('two-criteria-give-the-lexicographic-optimum', [best1, best2], z3.ForAll([v], C(v) == lex(v))),
      ('a-later-criterion-never-worsens-an-earlier-value', [best1, best2], z3.ForAll([v, w], z3.Implies(z3.And(C(v), A(w)), m1(w) <= m1(v)))),
    ]
LEMMAS['C04/lex-chain'] = dict(raw=_lex_chain)

# ---- C10 -> C02: the rank lists' sum identity, for every weight, is what Solver.solve requires (and hands down to generous / greedy)
LEMMAS['C02/rank-sums-compose'] = dict(
    vars={'S': ('obj', 'Solver')},
    hyps=['sizes_ok(S.model)', 'pairs_ok(S.model)',
          ('ensures', 'model:Model.set_rank_lists', {'self': 'S.model'}, None, ['one-list-per-rank', 'sum-over-each-list-is-the-sum-over-the-pairs-with-that-rank-for-every-weight'])],
    goals=[('requires', 'solver:Solver.solve', {'self': 'S'}, None, ['one-rank-list-per-rank', 'rank-list-sums-for-every-weight'])])


# ---- C05 bridge: for one acceptable pair p = m.pairs[i][c] of a valid 0/1 valuation, the alpha/beta/gamma system of p is solvable
#      iff p does not block the matching M = {q : nu(q.lp_var) = 1}, with "blocks" written in PAIR SPACE exactly as in the property
#      statement (loads = sums over all pairs of that project / lecturer; "worse assignee" = some assigned pair of that lecturer /
#      project ranked strictly worse by the lecturer; "already supervises" = an assigned pair of the same student with that lecturer).
#      Ingredients: the lecturer lists' sum identity for two weights (nu, and nu restricted to p's project), their element sets, the
#      list read rule, C05/no-blocking-iff and C05/alpha-beta-gamma over the list of p's lecturer.
#      (kk, jj are p's lecturer and project index, introduced through quantifiers so that the sums below are the very terms of the
#      list builders' postconditions.)
_B = {
 'p': ([], 'm.pairs[i][c]'), 'row': ([], 'm.pairs[i]'), 'k': ([], 'm.pairs[i][c].lecturer_index'), 'j': ([], 'm.pairs[i][c].project_index'),
 'LL': ([], 'm.lecturer_lists[m.pairs[i][c].lecturer_index]'), 'n': ([], 'len(m.lecturer_lists[m.pairs[i][c].lecturer_index])'),
 'd': ([], 'm.lec_upper_quotas[m.pairs[i][c].lecturer_index]'), 'cq': ([], 'm.proj_upper_quotas[m.pairs[i][c].project_index]'),
 'lkcond': (['x', 'y'], 'x.rank_lecturer <= y.rank_lecturer and x.studentID != y.studentID'),
 # list-space quantities, in the form stability_constraints uses them
 'lksum': ([], 'Sum(q, n(), ite(lkcond(LL()[q], p()), nu(LL()[q].lp_var), 0))'),
 'pjsum': ([], 'Sum(q, n(), ite(lkcond(LL()[q], p()) and LL()[q].projectID == p().projectID, nu(LL()[q].lp_var), 0))'),
 'A': ([], 'Sum(q, len(row()), ite(row()[q].rank_student <= p().rank_student, nu(row()[q].lp_var), 0))'),
 'AT': ([], 'lam(q, len(row()), ite(row()[q].rank_student <= p().rank_student, nu(row()[q].lp_var), 0))'),
 'loadL_list': ([], 'varsum(LL())'),
 'loadP_list': ([], 'Sum(q, n(), ite(LL()[q].projectID == K0(), nu(LL()[q].lp_var), 0))'),
 # pair-space quantities of the property statement
 'on': (['r'], 'nu(r.lp_var) == 1'),
 'loadL_nu': (['kk'], 'Sum(i2, len(m.pairs), Sum(c2, len(m.pairs[i2]), ite(m.pairs[i2][c2].lecturer_index == kk, nu(m.pairs[i2][c2].lp_var), 0)))'),
 'loadP_nu': (['jj'], 'Sum(i2, len(m.pairs), Sum(c2, len(m.pairs[i2]), ite(m.pairs[i2][c2].project_index == jj, nu(m.pairs[i2][c2].lp_var), 0)))'),
 'loadPK_nu': (['kk'], 'Sum(i2, len(m.pairs), Sum(c2, len(m.pairs[i2]), ite(m.pairs[i2][c2].lecturer_index == kk, ite(m.pairs[i2][c2].projectID == K0(), nu(m.pairs[i2][c2].lp_var), 0), 0)))'),
 'own': ([], 'exists(c2, 0, len(row()), on(row()[c2]) and row()[c2].lecturer_index == k())'),
 'worseL': ([], 'exists(i2, 0, len(m.pairs), exists(c2, 0, len(m.pairs[i2]), on(m.pairs[i2][c2]) and m.pairs[i2][c2].lecturer_index == k() and m.pairs[i2][c2].rank_lecturer > p().rank_lecturer))'),
 'worseP': ([], 'exists(i2, 0, len(m.pairs), exists(c2, 0, len(m.pairs[i2]), on(m.pairs[i2][c2]) and m.pairs[i2][c2].project_index == j() and m.pairs[i2][c2].rank_lecturer > p().rank_lecturer))'),
 'blocks_nu': (['kk', 'jj'], 'A() == 0 and ((loadP_nu(jj) < cq() and loadL_nu(kk) < d()) or (loadP_nu(jj) < cq() and loadL_nu(kk) >= d() and (own() or worseL()))'
                             ' or (loadP_nu(jj) >= cq() and worseP()))'),
 'solvable': ([], 'exists(al, 0, 2, exists(be, 0, 2, (0 - d()) * al + lksum() >= 0 and (0 - cq()) * be + pjsum() >= 0 and (1 - A()) - al - be <= 0))'),
 'at_p': (['kk', 'jj'], 'kk == k() and jj == j()'),
 # the three 0/1 arrays C05/no-blocking-iff is instantiated with (over the list of p's lecturer) and its internal sums
 'XX': ([], 'var_terms(LL(), n())'), 'CN': ([], 'lam(q, n(), ite(lkcond(LL()[q], p()), 1, 0))'), 'PR': ([], 'lam(q, n(), ite(LL()[q].projectID == K0(), 1, 0))'),
 'Lk_l': ([], 'Sum(q, n(), ite(CN()[q] == 1, XX()[q], 0))'), 'Pj_l': ([], 'Sum(q, n(), ite(CN()[q] == 1 and PR()[q] == 1, XX()[q], 0))'), 'loadP_l': ([], 'Sum(q, n(), ite(PR()[q] == 1, XX()[q], 0))'),
 'blocks_list': ([], 'A() == 0 and ((loadP_l() < cq() and loadL_list() < d()) or (loadP_l() < cq() and loadL_list() >= d() and exists(q, 0, n(), XX()[q] == 1 and CN()[q] != 1))'
                     ' or (loadP_l() >= cq() and exists(q, 0, n(), XX()[q] == 1 and PR()[q] == 1 and CN()[q] != 1)))'),
 # list-space existentials of C05/no-blocking-iff, written over the list of p's lecturer
 'snp_list': ([], 'exists(q, 0, n(), nu(LL()[q].lp_var) == 1 and not lkcond(LL()[q], p()))'),
 'snpj_list': ([], 'exists(q, 0, n(), nu(LL()[q].lp_var) == 1 and LL()[q].projectID == K0() and not lkcond(LL()[q], p()))'),
}
NUW2 = {'W': (['x'], 'ite(x.projectID == K0(), nu(x.lp_var), 0)')}          # nu restricted to the project whose number is K0()
_SUMCL = ['sum-over-each-list-is-the-sum-over-the-pairs-with-that-index-for-every-weight']
LEMMAS['C05/stable-iff-constraints'] = dict(
    vars={'m': ('obj', 'Model'), 'i': 'int', 'c': 'int'}, defs=_B, theory=['listsets'],
    hyps=['sizes_ok(m)', 'pairs_ok(m)', 'two_sided(m)', 'has_vars(m.pairs)', 'len(m.lecturer_lists) == m.num_lecturers',
          '0 <= i and i < len(m.pairs) and 0 <= c and c < len(m.pairs[i])', 'K0() == m.pairs[i][c].projectID',
          ('project-lecturers-in-range', 'len(m.proj_lecturers) == m.num_projects'),
          ('valuation-is-binary', 'pairs_binary(m)'), ('rows-are-partial-assignments', 'rows_partial(m)'),
          ('capacities-non-negative', 'd() >= 0 and cq() >= 0'),
          ('capacities-respected', 'forall(kk, 0, m.num_lecturers, forall(jj, 0, m.num_projects, implies(at_p(kk, jj), loadL_nu(kk) <= d() and loadP_nu(jj) <= cq())))'),
          ('ensures', 'model:Model.set_lecturer_lists', {'self': 'm'}, None, ['one-list-per-lecturer', 'lecturer-list-holds-exactly-the-pairs-of-that-lecturer']),
          # the element set of a list: its entries, and nothing else (definition of elems; LISTSET)
          ('entries-are-elements', 'forall(q, 0, n(), ref(LL()[q]) in elems(LL()))'), ('elements-are-entries', 'forall(r, implies(ref(r) in elems(LL()), exists(q, 0, n(), LL()[q] == ref(r))))'),
          ('a-student-ranks-a-project-once', 'forall(a, 0, len(row()), forall(b, 0, len(row()), implies(row()[a].projectID == row()[b].projectID, a == b)))'),
          ('ensures', 'model:Model.set_lecturer_lists', {'self': 'm'}, NUW, _SUMCL),
          ('ensures', 'model:Model.set_lecturer_lists', {'self': 'm'}, NUW2, _SUMCL)],
    uses=[# (lecturer kk and project K0)  <=>  project index jj, for the pairs of the instance: inner sums agree, then the outer ones
          ('SUM/ext', {'f': 'lam(c2, len(m.pairs[i2]), ite(m.pairs[i2][c2].lecturer_index == kk, ite(m.pairs[i2][c2].projectID == K0(), nu(m.pairs[i2][c2].lp_var), 0), 0))',
                       'g': 'lam(c2, len(m.pairs[i2]), ite(m.pairs[i2][c2].project_index == jj, nu(m.pairs[i2][c2].lp_var), 0))', 'n': 'len(m.pairs[i2])'}, 'forall:kk,jj,i2'),
          ('SUM/ext', {'f': 'lam(i2, len(m.pairs), Sum(c2, len(m.pairs[i2]), ite(m.pairs[i2][c2].lecturer_index == kk, ite(m.pairs[i2][c2].projectID == K0(), nu(m.pairs[i2][c2].lp_var), 0), 0)))',
                       'g': 'lam(i2, len(m.pairs), Sum(c2, len(m.pairs[i2]), ite(m.pairs[i2][c2].project_index == jj, nu(m.pairs[i2][c2].lp_var), 0)))', 'n': 'len(m.pairs)'}, 'forall:kk,jj'),
          # A is 0 or 1: a filtered part of a row sum that is at most 1
          ('SUM/le', {'f': 'lam(q, len(row()), ite(row()[q].rank_student <= p().rank_student, nu(row()[q].lp_var), 0))', 'g': 'var_terms(row(), len(row()))', 'n': 'len(row())'}, 'if-applicable'),
          ('SUM/nonneg', {'f': 'lam(q, len(row()), ite(row()[q].rank_student <= p().rank_student, nu(row()[q].lp_var), 0))', 'n': 'len(row())'}, 'if-applicable'),
          ('SUM/term-le', {'f': 'lam(q, len(row()), ite(row()[q].rank_student <= p().rank_student, nu(row()[q].lp_var), 0))', 'n': 'len(row())'}, 'if-applicable'),
          # the internal sums of C05/no-blocking-iff are the sums of the constraint builder
          ('SUM/ext', {'f': 'lam(q, n(), ite(CN()[q] == 1, XX()[q], 0))', 'g': 'lam(q, n(), ite(lkcond(LL()[q], p()), nu(LL()[q].lp_var), 0))', 'n': 'n()'}, 'if-applicable'),
          ('SUM/ext', {'f': 'lam(q, n(), ite(CN()[q] == 1 and PR()[q] == 1, XX()[q], 0))', 'g': 'lam(q, n(), ite(lkcond(LL()[q], p()) and LL()[q].projectID == p().projectID, nu(LL()[q].lp_var), 0))', 'n': 'n()'}, 'if-applicable'),
          ('SUM/ext', {'f': 'lam(q, n(), ite(PR()[q] == 1, XX()[q], 0))', 'g': 'lam(q, n(), ite(LL()[q].projectID == K0(), nu(LL()[q].lp_var), 0))', 'n': 'n()'}, 'if-applicable'),
          ('SUM/nonneg', {'f': 'lam(q, n(), ite(lkcond(LL()[q], p()), nu(LL()[q].lp_var), 0))', 'n': 'n()'}, 'if-applicable'),
          ('SUM/nonneg', {'f': 'lam(q, n(), ite(lkcond(LL()[q], p()) and LL()[q].projectID == p().projectID, nu(LL()[q].lp_var), 0))', 'n': 'n()'}, 'if-applicable'),
          # the two logical cores (their hypotheses are established by the goals below)
          ('C05/no-blocking-iff', {'x': 'XX()', 'cnd': 'CN()', 'prj': 'PR()', 'n': 'n()', 'd': 'd()', 'c': 'cq()', 'A': 'A()'}, 'if-applicable'),
          ('C05/alpha-beta-gamma', {'Lk': 'lksum()', 'Pj': 'pjsum()', 'd': 'd()', 'c': 'cq()', 'A': 'A()'}, 'if-applicable')],
    goals=[('lecturer-load-over-the-list-is-the-load-over-all-pairs', 'forall(kk, 0, m.num_lecturers, implies(kk == k(), loadL_list() == loadL_nu(kk)))', 'then-assume'),
           ('project-load-over-the-lecturers-list-is-the-load-over-all-pairs', 'forall(kk, 0, m.num_lecturers, forall(jj, 0, m.num_projects, implies(at_p(kk, jj), loadP_list() == loadP_nu(jj))))', 'then-assume'),
           ('someone-not-preferred-on-the-list-iff-own-or-worse-assignee-of-the-lecturer', 'snp_list() == (own() or worseL())', 'then-assume'),
           ('someone-not-preferred-at-the-project-iff-worse-assignee-of-the-project-or-the-student-itself', 'snpj_list() == (worseP() or nu(p().lp_var) == 1)', 'then-assume'),
           ('A-is-0-or-1', 'A() == 0 or A() == 1', 'then-assume'),
           ('the-term-of-p-itself', 'AT()[c] == nu(p().lp_var) and AT()[c] <= A()', 'then-assume'),
           ('an-assigned-p-makes-A-one', 'implies(nu(p().lp_var) == 1, A() == 1)', 'then-assume'),
           ('internal-sums-are-the-builders-sums', 'Lk_l() == lksum() and Pj_l() == pjsum() and loadP_l() == loadP_list() and lksum() >= 0 and pjsum() >= 0', 'then-assume'),
           ('the-three-arrays-entry-by-entry', 'forall(q, 0, n(), XX()[q] == nu(LL()[q].lp_var) and CN()[q] == ite(lkcond(LL()[q], p()), 1, 0) and PR()[q] == ite(LL()[q].projectID == K0(), 1, 0))', 'then-assume'),
           ('list-entries-are-binary', 'forall(q, 0, n(), XX()[q] == 0 or XX()[q] == 1)', 'then-assume'),
           ('array-form-of-someone-not-preferred', 'exists(q, 0, n(), XX()[q] == 1 and CN()[q] != 1) == snp_list()', 'then-assume'),
           ('array-form-of-someone-at-the-project-not-preferred', 'exists(q, 0, n(), XX()[q] == 1 and PR()[q] == 1 and CN()[q] != 1) == snpj_list()', 'then-assume'),
           ('list-space-blocking-is-pair-space-blocking', 'forall(kk, 0, m.num_lecturers, forall(jj, 0, m.num_projects, implies(at_p(kk, jj), blocks_list() == blocks_nu(kk, jj))))', 'then-assume'),
           ('capacities-respected-in-list-space', 'loadL_list() <= d() and loadP_l() <= cq()', 'then-assume'),
           ('not-blocking-in-list-space-iff-one-of-three', '(not blocks_list()) == (A() >= 1 or Lk_l() >= d() or Pj_l() >= cq())', 'then-assume'),
           ('system-solvable-iff-one-of-three', 'solvable() == (A() >= 1 or lksum() >= d() or pjsum() >= cq())', 'then-assume'),
           # THE STATEMENT, in two halves that share the middle term: the alpha / beta / gamma constraints of p admit 0/1 values for alpha and beta
           # iff (s_i holds a pair at rank <= rank(p), or Lk >= d_k, or Pj >= c_j)  [goal above]  iff p does not block  [this goal]
           ('one-of-three-iff-p-does-not-block', 'forall(kk, 0, m.num_lecturers, forall(jj, 0, m.num_projects, implies(at_p(kk, jj), (A() >= 1 or lksum() >= d() or pjsum() >= cq()) == (not blocks_nu(kk, jj)))))', '',
            ['list-space-blocking-is-pair-space-blocking', 'not-blocking-in-list-space-iff-one-of-three', 'system-solvable-iff-one-of-three', 'internal-sums-are-the-builders-sums'])])


# ---- C02 witness-in-bounds for mincost: for every valid 0/1 valuation the weighted cost lies within the bounds of obj_mincost.
#      cost-term: one pair's cost is at most  nu * K  with  K = nP*sm + nS*lm  (quantifier-free nonlinear arithmetic);
#      SUM/scale: a constant factor moves out of a sum;  then per row  <= K * (row sum) <= K,  and over the rows  <= nS * K = UB.
LEMMAS['C02/cost-term'] = dict(
    vars={'v': 'int', 'rs': 'int', 'rl': 'int', 'sm': 'int', 'lm': 'int', 'nP': 'int', 'nS': 'int', 'h': 'bool'},
    hyps=['0 <= v and v <= 1', '1 <= rs and rs <= nP', 'implies(h, 1 <= rl and rl <= nS)', 'sm >= 0 and lm >= 0', 'nS >= 0'],
    goals=[('term-between-0-and-nu-times-K', '0 <= v * rs * sm + ite(h, v * rl * lm, 0) and v * rs * sm + ite(h, v * rl * lm, 0) <= v * (nP * sm + nS * lm)')])
LEMMAS['SUM/scale'] = dict(
    vars={'f': ('list', 'int'), 'n': 'int', 'k': 'int'}, hyps=['n >= 0'],
    induct=('m', '0', 'n', 'Sum(j, m, f[j] * k) == Sum(j, m, f[j]) * k'))

# ---- the same argument for the two other weighted cost criteria
LEMMAS['C02/studentcost-term'] = dict(
    vars={'v': 'int', 'rs': 'int', 'sm': 'int', 'nP': 'int'},
    hyps=['0 <= v and v <= 1', '1 <= rs and rs <= nP', 'sm >= 0'],
    goals=[('term-between-0-and-nu-times-K', '0 <= v * rs * sm and v * rs * sm <= v * (nP * sm)')])
LEMMAS['C02/sqcost-term'] = dict(
    vars={'v': 'int', 'rs': 'int', 'rl': 'int', 'sm': 'int', 'lm': 'int', 'R': 'int', 'nS': 'int', 'h': 'bool'},
    hyps=['0 <= v and v <= 1', '1 <= rs and rs <= R', 'implies(h, 1 <= rl and rl <= nS)', 'sm >= 0 and lm >= 0', 'nS >= 0'],
    goals=[('term-between-0-and-nu-times-K', '0 <= v * (rs * rs) * sm + ite(h, v * (rl * rl) * lm, 0) and v * (rs * rs) * sm + ite(h, v * (rl * rl) * lm, 0) <= v * (R * R * sm + nS * nS * lm)')])
# the code's bound for minsqcost is (nS*R)^2*sm + (nS*nS)^2*lm, which dominates nS*(R^2*sm + nS^2*lm)
LEMMAS['C02/sq-bound-dominates'] = dict(
    vars={'n': 'int', 'r': 'int', 'sm': 'int', 'lm': 'int'},
    hyps=['n >= 0', 'r >= 0', 'sm >= 0', 'lm >= 0'],
    goals=[('n-times-K-at-most-the-declared-bound', 'n * (r * r * sm + n * n * lm) <= (n * r) * (n * r) * sm + (n * n) * (n * n) * lm')])


def _cost_bound(cost, K, term_lemma, term_binding, bound, extra_hyps=(), extra_uses=(), extra_vars=None):
    D = {'K': ([], 'KK'), 'cost': (['p'], cost),
         'rowcost': (['i'], 'Sum(c, len(m.pairs[i]), cost(m.pairs[i][c]))'), 'VT': (['i'], 'var_terms(m.pairs[i], len(m.pairs[i]))'),
         'rowscaled': (['i'], 'Sum(c, len(m.pairs[i]), VT(i)[c] * K())'),
         'total': ([], 'Sum(i, len(m.pairs), Sum(c, len(m.pairs[i]), cost(m.pairs[i][c])))')}
    V = {'m': ('obj', 'Model'), 'sm': 'int', 'lm': 'int', 'KK': 'int'}; V.update(extra_vars or {})          # KK: the per-pair bound, an atom in every product
    return dict(
        vars=V, defs=D,
        hyps=['sizes_ok(m)', 'pairs_ok(m)', 'has_vars(m.pairs)', ('valuation-is-binary', 'pairs_binary(m)'), ('rows-are-partial-assignments', 'rows_partial(m)'),
              ('multipliers-non-negative', 'sm >= 0 and lm >= 0'), ('KK-is-the-per-pair-bound', 'KK == ' + K)] + list(extra_hyps),
        uses=[(term_lemma, term_binding, 'forall:i,c'),
              ('SUM/le', {'f': 'lam(c, len(m.pairs[i]), cost(m.pairs[i][c]))', 'g': 'lam(c, len(m.pairs[i]), VT(i)[c] * K())', 'n': 'len(m.pairs[i])'}, 'forall:i'),
              ('SUM/nonneg', {'f': 'lam(c, len(m.pairs[i]), cost(m.pairs[i][c]))', 'n': 'len(m.pairs[i])'}, 'forall:i'),
              ('SUM/scale', {'f': 'var_terms(m.pairs[i], len(m.pairs[i]))', 'n': 'len(m.pairs[i])', 'k': 'K()'}, 'forall:i'),
              ('SUM/le', {'f': 'lam(i, len(m.pairs), rowcost(i))', 'g': 'lam(i, len(m.pairs), K())', 'n': 'len(m.pairs)'}, 'if-applicable'),
              ('SUM/nonneg', {'f': 'lam(i, len(m.pairs), rowcost(i))', 'n': 'len(m.pairs)'}, 'if-applicable'),
              ('SUM/const', {'n': 'len(m.pairs)', 'cst': 'K()'})] + list(extra_uses),
        goals=[('K-non-negative', 'K() >= 0', 'then-assume'),
               ('h-binary', 'pairs_binary(m)', 'then-assume'), ('h-sizes', 'm.num_students >= 0 and sm >= 0 and lm >= 0 and KK == ' + K, 'then-assume'),
               ('h-ranks', ' and '.join('(%s)' % (h[1] if isinstance(h, tuple) else h) for h in extra_hyps) + ' and forall(i, 0, len(m.pairs), forall(c, 0, len(m.pairs[i]), 1 <= m.pairs[i][c].rank_student))', 'then-assume'),
               ('h-terms', 'forall(i, 0, len(m.pairs), forall(c, 0, len(m.pairs[i]), VT(i)[c] == nu(m.pairs[i][c].lp_var)))', 'then-assume'),
               ('each-term-at-most-nu-times-K', 'forall(i, 0, len(m.pairs), forall(c, 0, len(m.pairs[i]), 0 <= cost(m.pairs[i][c]) and cost(m.pairs[i][c]) <= VT(i)[c] * K()))', 'then-assume',
                ['h-binary', 'h-sizes', 'h-ranks', 'h-terms', term_lemma + '/term-between-0-and-nu-times-K']),
               ('row-cost-at-most-the-scaled-row', 'forall(i, 0, len(m.pairs), 0 <= rowcost(i) and rowcost(i) <= rowscaled(i))', 'then-assume',
                ['each-term-at-most-nu-times-K', 'SUM/le/induct', 'SUM/nonneg/induct']),
               ('scaled-row-is-K-times-the-row-sum', 'forall(i, 0, len(m.pairs), rowscaled(i) == varsum(m.pairs[i]) * K())', 'then-assume', ['SUM/scale/induct']),
               ('row-sum-is-0-or-1', 'forall(i, 0, len(m.pairs), varsum(m.pairs[i]) == 0 or varsum(m.pairs[i]) == 1)', 'then-assume'),
               ('row-cost-at-most-K', 'forall(i, 0, len(m.pairs), 0 <= rowcost(i) and rowcost(i) <= K())', 'then-assume',
                ['row-cost-at-most-the-scaled-row', 'scaled-row-is-K-times-the-row-sum', 'K-non-negative', 'row-sum-is-0-or-1']),
               ('total-at-most-students-times-K', '0 <= total() and total() <= m.num_students * K()', 'then-assume'),
               ('total-cost-within-the-bounds-of-the-objective-variable', '0 <= total() and total() <= ' + bound, '',
                ['total-at-most-students-times-K', 'h-sizes', 'h-ranks'] + [u[0] + '/' + LEMMAS[u[0]]['goals'][0][0] for u in extra_uses])])


_RB_S = ('student-ranks-bounded', 'forall(i, 0, len(m.pairs), forall(c, 0, len(m.pairs[i]), m.pairs[i][c].rank_student <= m.num_projects))')
LEMMAS['C02/studentcost-bound'] = _cost_bound(
    'nu(p.lp_var) * p.rank_student * sm', 'm.num_projects * sm', 'C02/studentcost-term',
    {'v': 'nu(m.pairs[i][c].lp_var)', 'rs': 'm.pairs[i][c].rank_student', 'sm': 'sm', 'nP': 'm.num_projects'},
    'm.num_students * m.num_projects * sm', extra_hyps=[_RB_S])
_RB_Q = ('ranks-bounded-by-the-maximum-rank-and-the-number-of-students', "R >= 0 and forall(i, 0, len(m.pairs), forall(c, 0, len(m.pairs[i]), m.pairs[i][c].rank_student <= R"
         " and implies(has(m.pairs[i][c], 'rank_lecturer'), 1 <= m.pairs[i][c].rank_lecturer and m.pairs[i][c].rank_lecturer <= m.num_students)))")
LEMMAS['C02/sqcost-bound'] = _cost_bound(
    "nu(p.lp_var) * (p.rank_student * p.rank_student) * sm + ite(has(p, 'rank_lecturer'), nu(p.lp_var) * (p.rank_lecturer * p.rank_lecturer) * lm, 0)",
    'R * R * sm + m.num_students * m.num_students * lm', 'C02/sqcost-term',
    {'v': 'nu(m.pairs[i][c].lp_var)', 'rs': 'm.pairs[i][c].rank_student', 'rl': 'm.pairs[i][c].rank_lecturer', 'sm': 'sm', 'lm': 'lm', 'R': 'R', 'nS': 'm.num_students',
     'h': "has(m.pairs[i][c], 'rank_lecturer')"},
    '(m.num_students * R) * (m.num_students * R) * sm + (m.num_students * m.num_students) * (m.num_students * m.num_students) * lm',
    extra_hyps=[_RB_Q], extra_uses=[('C02/sq-bound-dominates', {'n': 'm.num_students', 'r': 'R', 'sm': 'sm', 'lm': 'lm'}, 'if-applicable')], extra_vars={'R': 'int'})
_RB_M = ('ranks-bounded', "forall(i, 0, len(m.pairs), forall(c, 0, len(m.pairs[i]), m.pairs[i][c].rank_student <= m.num_projects"
         " and implies(has(m.pairs[i][c], 'rank_lecturer'), 1 <= m.pairs[i][c].rank_lecturer and m.pairs[i][c].rank_lecturer <= m.num_students)))")
LEMMAS['C02/mincost-bound'] = _cost_bound(
    "nu(p.lp_var) * p.rank_student * sm + ite(has(p, 'rank_lecturer'), nu(p.lp_var) * p.rank_lecturer * lm, 0)",
    'm.num_projects * sm + m.num_students * lm', 'C02/cost-term',
    {'v': 'nu(m.pairs[i][c].lp_var)', 'rs': 'm.pairs[i][c].rank_student', 'rl': 'm.pairs[i][c].rank_lecturer', 'sm': 'sm', 'lm': 'lm', 'nP': 'm.num_projects', 'nS': 'm.num_students',
     'h': "has(m.pairs[i][c], 'rank_lecturer')"},
    'm.num_students * m.num_projects * sm + m.num_students * m.num_students * lm', extra_hyps=[_RB_M])


# ---- C10 -> C05: ranks that start at 1 and grow by 0 or 1 per entry are non-decreasing along the list, which is the `rows_sorted`
#      precondition of stability_constraints (the while-loop prefix of a row is then a rank filter)
LEMMAS['C10/dense-ranks-sorted'] = dict(
    vars={'r': ('list', 'int'), 'n': 'int', 'a': 'int'},
    hyps=['0 <= a', 'a <= n', 'n == len(r)', 'forall(j, 0, n - 1, r[j + 1] == r[j] or r[j + 1] == r[j] + 1)'],
    induct=('m', 'a', 'n', 'implies(a < n and m < n, r[a] <= r[m])'))
LEMMAS['C10/reader-rows-sorted'] = dict(
    vars={'m': ('obj', 'Model'), 'io': ('dict', 'Instance_options', {'NUMAGENTS': 'int', 'TWOPL': 'bool', 'PC': 'bool'})},
    hyps=[('ensures', 'fileIO:_import_from_file', {'result': 'm', 'instance_options': 'io'}, None, ['one-row-per-student', 'rows-in-list-order-with-the-written-numbers-and-dense-tie-ranks'])],
    uses=[('C10/dense-ranks-sorted', {'r': 'lam(c, len(m.pairs[i]), m.pairs[i][c].rank_student)', 'n': 'len(m.pairs[i])', 'a': 'a'}, 'forall:i,a')],
    defs={'RR': (['i'], 'lam(c, len(m.pairs[i]), m.pairs[i][c].rank_student)')},
    goals=[('ranks-entry-by-entry', 'forall(i, 0, len(m.pairs), forall(c, 0, len(m.pairs[i]), RR(i)[c] == m.pairs[i][c].rank_student))', 'then-assume'),
           ('rank-steps-are-0-or-1', 'forall(i, 0, len(m.pairs), forall(j, 0, len(m.pairs[i]) - 1, RR(i)[j + 1] == RR(i)[j] or RR(i)[j + 1] == RR(i)[j] + 1))', 'then-assume'),
           ('sorted-in-array-form', 'forall(i, 0, len(m.pairs), forall(a, 0, len(m.pairs[i]), forall(b, a, len(m.pairs[i]), RR(i)[a] <= RR(i)[b])))', 'then-assume'),
           ('rows-list-projects-in-non-decreasing-rank-order', 'rows_sorted(m)')])
# ... and never exceed the position: rank of entry m is at most m + 1, hence at most the length of the list
LEMMAS['C10/dense-ranks-bounded'] = dict(
    vars={'r': ('list', 'int'), 'n': 'int'},
    hyps=['n == len(r)', 'implies(n > 0, r[0] == 1)', 'forall(j, 0, n - 1, r[j + 1] == r[j] or r[j + 1] == r[j] + 1)'],
    induct=('m', '0', 'n', 'implies(m < n, r[m] <= m + 1)'))
LEMMAS['C10/reader-student-ranks-bounded'] = dict(
    vars={'m': ('obj', 'Model'), 'io': ('dict', 'Instance_options', {'NUMAGENTS': 'int', 'TWOPL': 'bool', 'PC': 'bool'})},
    hyps=[('ensures', 'fileIO:_import_from_file', {'result': 'm', 'instance_options': 'io'}, None, ['counts-from-the-header', 'one-row-per-student', 'rows-in-list-order-with-the-written-numbers-and-dense-tie-ranks']),
          ('a-student-ranks-at-most-all-projects', 'forall(i, 0, len(m.pairs), len(m.pairs[i]) <= m.num_projects)')],
    uses=[('C10/dense-ranks-bounded', {'r': 'lam(c, len(m.pairs[i]), m.pairs[i][c].rank_student)', 'n': 'len(m.pairs[i])'}, 'forall:i')],
    defs={'RR': (['i'], 'lam(c, len(m.pairs[i]), m.pairs[i][c].rank_student)')},
    goals=[('ranks-entry-by-entry', 'forall(i, 0, len(m.pairs), forall(c, 0, len(m.pairs[i]), RR(i)[c] == m.pairs[i][c].rank_student))', 'then-assume'),
           ('first-rank-and-steps', 'forall(i, 0, len(m.pairs), implies(len(m.pairs[i]) > 0, RR(i)[0] == 1) and forall(j, 0, len(m.pairs[i]) - 1, RR(i)[j + 1] == RR(i)[j] or RR(i)[j + 1] == RR(i)[j] + 1))', 'then-assume'),
           ('rank-at-most-position-plus-one', 'forall(i, 0, len(m.pairs), forall(c, 0, len(m.pairs[i]), RR(i)[c] <= c + 1))', 'then-assume'),
           ('student-ranks-bounded-by-the-number-of-projects', 'forall(i, 0, len(m.pairs), forall(c, 0, len(m.pairs[i]), m.pairs[i][c].rank_student <= m.num_projects))')])


# ---- C09 / C08: the text the writer returns is a file the reader accepts, and it denotes the lists that were handed over.
#      Hypotheses: the writer's precondition (what generate_instances proves at the call site) and postcondition (lines of tokens);
#      T8 "the file reads back as its lines" written down as a modelling step (file_len / line_toks := the written text);
#      the ghost tie decisions of a line := the tie vector its list was written from; the definition of elems in both directions.
#      Goals: every clause of the reader's precondition (the documented file format), under -na 2 / -na 3 and -twopl iff second-side lists were written.
LL_ = ('list', ('list', 'int')); L_ = ('list', 'int')
def _reader_defs():
    from . import fileIO
    return dict(fileIO.IMPORT_DEFS)
IO_ = ('dict', 'Instance_options', {'NUMAGENTS': 'int', 'TWOPL': 'bool', 'PC': 'bool'})
def _file_is(n): return ('file_len() == text_len(R) and forall(i, 0, %s, len(line_toks(i)) == len(text_toks(R, i))'
                         ' and forall(q, 0, len(text_toks(R, i)), kind(line_toks(i)[q]) == kind(text_toks(R, i)[q]) and value(line_toks(i)[q]) == value(text_toks(R, i)[q]), line_toks(i)[q]), line_toks(i), len(line_toks(i)))' % n)
def _ties_of(first, n, lists, ties): return 'forall(ln, %s, %s + %s, forall(j, 0, len(%s[ln - (%s)]), line_ties(ln)[j] == %s[ln - (%s)][j], line_ties(ln)[j]), line_ties(ln))' % (first, first, n, lists, first, ties, first)
def _elem_has_index(lists, n): return 'forall(h, 0, %s, forall(v, implies(v in elems(%s[h]), exists(t, 0, len(%s[h]), %s[h][t] == v))))' % (n, lists, lists, lists)
def _entry_is_elem(lists, n): return 'forall(i, 0, %s, forall(j, 0, len(%s[i]), %s[i][j] in elems(%s[i])))' % (n, lists, lists, lists)
_HSH = 'generator_ha_sm_hr:Generator_ha_sm_hr.create_instance'
_T8 = 'T8-the-file-is-the-written-text'; _R2 = 'requires:'; _E2 = 'ensures:'
_R2N = ['first-side-ranks-distinct-agents-in-range-with-tie-flags-of-the-same-shape', 'quotas-ordered', 'second-side-lists-rank-exactly-those-who-rank-them']
_E2N = ['header-line-carries-the-two-counts', 'one-numbered-line-per-first-side-agent-with-exactly-the-list-handed-over',
        'one-numbered-line-per-second-side-agent-with-quotas-and-list-only-when-given', 'blank-line-then-the-parameter-block']
_HSH_BIND = {k: k for k in ('n1', 'n2', 'pref_lists_residents', 'res_ties', 'pref_lists_hospitals', 'hosp_ties', 'lower_quotas', 'upper_quotas')}
LEMMAS['C09/written-file-is-readable-2'] = dict(
    vars={'n1': 'int', 'n2': 'int', 'pref_lists_residents': LL_, 'res_ties': LL_, 'pref_lists_hospitals': LL_, 'hosp_ties': LL_, 'lower_quotas': L_, 'upper_quotas': L_,
          'R': 'text', 'instance_options': IO_}, theory=['listsets'], defs=_reader_defs(), cover_named_facts=True,
    hyps=[('requires', _HSH, _HSH_BIND), ('ensures', _HSH, dict(_HSH_BIND, result='R')),
          ('solver-flags-as-documented', 'NA() == 2 and TW() == (len(pref_lists_hospitals) != 0)'),
          ('T8-the-file-is-the-written-text', _file_is('2 + n1 + n2')),
          ('ghost-tie-decisions-first-side', _ties_of('1', 'n1', 'pref_lists_residents', 'res_ties')),
          ('ghost-tie-decisions-second-side', 'implies(len(pref_lists_hospitals) != 0, %s)' % _ties_of('1 + n1', 'n2', 'pref_lists_hospitals', 'hosp_ties')),
          ('elems-definition-an-element-has-an-index', 'implies(len(pref_lists_hospitals) != 0, %s)' % _elem_has_index('pref_lists_hospitals', 'n2')),
          ('elems-definition-an-entry-is-an-element', _entry_is_elem('pref_lists_residents', 'n1'))],
    goals=[('every-ranked-agent-is-in-range-and-ranks-back', 'implies(TW(), forall(i, 1, n1 + 1, forall(q, 1, len(line_toks(i)), 1 <= value(line_toks(i)[q]) and value(line_toks(i)[q]) <= n2'
            ' and i in elems(pref_lists_hospitals[value(line_toks(i)[q]) - 1]), line_toks(i)[q]), line_toks(i)))', 'then-assume',
            ['wf', 'solver-flags-as-documented', _T8, _R2 + _R2N[0], _R2 + _R2N[2], _E2 + _E2N[1], 'elems-definition-an-entry-is-an-element']),
           ('entry-t-of-a-second-side-list-is-token-t+3-of-its-line', 'implies(TW(), forall(a, 1, n2 + 1, 3 + len(pref_lists_hospitals[a - 1]) == len(line_toks(n1 + a)) and forall(t, 0, len(pref_lists_hospitals[a - 1]),'
            ' value(line_toks(n1 + a)[t + 3]) == pref_lists_hospitals[a - 1][t], pref_lists_hospitals[a - 1][t]), pref_lists_hospitals[a - 1]))', 'then-assume',
            ['wf', 'solver-flags-as-documented', _T8, _R2 + _R2N[0], _R2 + _R2N[2], _E2 + _E2N[2]]),
           ('whoever-is-on-a-second-side-list-is-listed-on-that-line', 'implies(TW(), forall(a, 1, n2 + 1, forall(v, implies(v in elems(pref_lists_hospitals[a - 1]), listed(a, v)))))', 'then-assume',
            ['wf', 'solver-flags-as-documented', _T8, _R2 + _R2N[0], _R2 + _R2N[2], _E2 + _E2N[0], 'entry-t-of-a-second-side-list-is-token-t+3-of-its-line', 'elems-definition-an-element-has-an-index']),
           ('requires', 'fileIO:_import_from_file', {'instance_options': 'instance_options'}, None, None,
            {'second-side-lists-rank-those-who-rank-them': ['wf', 'solver-flags-as-documented', _T8, _R2 + _R2N[0], _R2 + _R2N[1], _E2 + _E2N[0], 'every-ranked-agent-is-in-range-and-ranks-back', 'whoever-is-on-a-second-side-list-is-listed-on-that-line']})])

_SPA = 'generator_spa:Generator_spa.create_instance'
_SPA_BIND = {k: k for k in ('n1', 'n2', 'n3', 'pref_lists_students', 'st_ties', 'project_lecturers', 'lower_quotas', 'upper_quotas', 'pref_lists_lecturers', 'lec_ties',
                            'lec_lower_quotas', 'lec_targets', 'lec_upper_quotas')}
_R3N = ['students-rank-distinct-projects-in-range-with-tie-flags-of-the-same-shape', 'one-lecturer-in-range-per-project', 'project-quotas-ordered', 'lecturer-quotas-ordered',
        'lecturer-lists-rank-exactly-the-students-who-rank-one-of-their-projects']
_E3N = ['header-line-carries-the-three-counts', 'one-numbered-line-per-student-with-exactly-the-list-handed-over', 'one-numbered-line-per-project-with-quotas-and-lecturer',
        'one-numbered-line-per-lecturer-with-quotas-target-and-list-only-when-given', 'blank-line-then-the-parameter-block']
_BASE3 = ['wf', 'solver-flags-as-documented', _T8] + [_R2 + x for x in _R3N[:4]] + [_E2 + _E3N[0]]
LEMMAS['C09/written-file-is-readable-3'] = dict(
    vars={'n1': 'int', 'n2': 'int', 'n3': 'int', 'pref_lists_students': LL_, 'st_ties': LL_, 'project_lecturers': L_, 'lower_quotas': L_, 'upper_quotas': L_,
          'pref_lists_lecturers': LL_, 'lec_ties': LL_, 'lec_lower_quotas': L_, 'lec_targets': L_, 'lec_upper_quotas': L_,
          'R': 'text', 'instance_options': IO_}, theory=['listsets'], defs=_reader_defs(), cover_named_facts=True,
    hyps=[('requires', _SPA, _SPA_BIND), ('ensures', _SPA, dict(_SPA_BIND, result='R')),
          ('solver-flags-as-documented', 'NA() == 3 and TW() == (len(pref_lists_lecturers) != 0)'),
          ('T8-the-file-is-the-written-text', _file_is('2 + n1 + n2 + n3')),
          ('ghost-tie-decisions-first-side', _ties_of('1', 'n1', 'pref_lists_students', 'st_ties')),
          ('ghost-tie-decisions-second-side', 'implies(len(pref_lists_lecturers) != 0, %s)' % _ties_of('1 + n1 + n2', 'n3', 'pref_lists_lecturers', 'lec_ties')),
          ('elems-definition-an-element-has-an-index', 'implies(len(pref_lists_lecturers) != 0, %s)' % _elem_has_index('pref_lists_lecturers', 'n3')),
          ('elems-definition-an-entry-is-an-element', _entry_is_elem('pref_lists_students', 'n1'))],
    goals=[('the-lecturer-field-of-a-project-line-is-its-lecturer', 'forall(ln, n1 + 1, n1 + n2 + 1, value(line_toks(ln)[3]) == project_lecturers[ln - n1 - 1] and 1 <= project_lecturers[ln - n1 - 1] and project_lecturers[ln - n1 - 1] <= n3, line_toks(ln))',
            'then-assume', _BASE3 + [_E2 + _E3N[2]]),
           ('every-ranked-project-is-in-range-and-its-lecturer-ranks-back', 'implies(TW(), forall(i, 1, n1 + 1, forall(q, 1, len(line_toks(i)), 1 <= value(line_toks(i)[q]) and value(line_toks(i)[q]) <= n2'
            ' and i in elems(pref_lists_lecturers[project_lecturers[value(line_toks(i)[q]) - 1] - 1]), line_toks(i)[q]), line_toks(i)))', 'then-assume',
            _BASE3 + [_R2 + _R3N[4], _E2 + _E3N[1], 'elems-definition-an-entry-is-an-element']),
           ('entry-t-of-a-lecturer-list-is-token-t+4-of-its-line', 'implies(TW(), forall(a, 1, n3 + 1, 4 + len(pref_lists_lecturers[a - 1]) == len(line_toks(n1 + n2 + a)) and forall(t, 0, len(pref_lists_lecturers[a - 1]),'
            ' value(line_toks(n1 + n2 + a)[t + 4]) == pref_lists_lecturers[a - 1][t], pref_lists_lecturers[a - 1][t]), pref_lists_lecturers[a - 1]))', 'then-assume',
            _BASE3 + [_R2 + _R3N[4], _E2 + _E3N[3]]),
           ('whoever-is-on-a-lecturer-list-is-listed-on-that-line', 'implies(TW(), forall(a, 1, n3 + 1, forall(v, implies(v in elems(pref_lists_lecturers[a - 1]), listed(a, v)))))', 'then-assume',
            _BASE3 + [_R2 + _R3N[4], 'entry-t-of-a-lecturer-list-is-token-t+4-of-its-line', 'elems-definition-an-element-has-an-index']),
           ('requires', 'fileIO:_import_from_file', {'instance_options': 'instance_options'}, None, None,
            {'second-side-lists-rank-those-who-rank-them': _BASE3 + ['the-lecturer-field-of-a-project-line-is-its-lecturer', 'every-ranked-project-is-in-range-and-its-lecturer-ranks-back',
                                                                      'whoever-is-on-a-lecturer-list-is-listed-on-that-line']})])

# ---- C09 "the solver's reading agrees with the file's content", lifted across the writer: the model the reader returns for the written text holds
#      exactly the lists, tie groups, quotas and lecturers that were handed to the writer (reader postcondition + writer postcondition + T8).
_RD = 'fileIO:_import_from_file'
_RDE = ['counts-from-the-header', 'one-row-per-student', 'rows-in-list-order-with-the-written-numbers-and-dense-tie-ranks', 'project-quotas-and-lecturers-as-written',
        'lecturer-quotas-as-written-or-embedded']
def _rows_agree(lists, ties):
    return ('len(M.pairs) == n1 and forall(i, 0, n1, len(M.pairs[i]) == len(%(L)s[i]) and forall(c, 0, len(%(L)s[i]), M.pairs[i][c].studentID == i + 1 and M.pairs[i][c].projectID == %(L)s[i][c])'
            ' and implies(len(%(L)s[i]) > 0, M.pairs[i][0].rank_student == 1)'
            ' and forall(c, 0, len(%(L)s[i]) - 1, M.pairs[i][c + 1].rank_student == M.pairs[i][c].rank_student + ite(%(T)s[i][c] != 0, 0, 1)))' % dict(L=lists, T=ties))
LEMMAS['C09/read-back-is-what-was-generated-2'] = dict(
    vars=dict(LEMMAS['C09/written-file-is-readable-2']['vars'], M=('obj', 'Model')), theory=['listsets'], defs=_reader_defs(),
    hyps=[('requires', _HSH, _HSH_BIND), ('ensures', _HSH, dict(_HSH_BIND, result='R')),
          ('solver-flags-as-documented', 'NA() == 2 and TW() == (len(pref_lists_hospitals) != 0)'),
          ('T8-the-file-is-the-written-text', _file_is('2 + n1 + n2')),
          ('ghost-tie-decisions-first-side', _ties_of('1', 'n1', 'pref_lists_residents', 'res_ties')),
          ('ensures', _RD, {'instance_options': 'instance_options', 'result': 'M'}, None, _RDE)],
    goals=[('counts', 'M.num_students == n1 and M.num_projects == n2 and M.num_lecturers == n2'),
           ('rows-are-the-first-side-lists-with-their-tie-groups', _rows_agree('pref_lists_residents', 'res_ties')),
           ('quotas-are-the-quotas-handed-over', 'len(M.proj_lower_quotas) == n2 and len(M.proj_upper_quotas) == n2 and forall(j, 0, n2, M.proj_lower_quotas[j] == lower_quotas[j] and M.proj_upper_quotas[j] == upper_quotas[j]'
            ' and M.proj_lecturers[j] == j + 1 and M.lec_lower_quotas[j] == lower_quotas[j] and M.lec_targets[j] == upper_quotas[j] and M.lec_upper_quotas[j] == upper_quotas[j])')])
LEMMAS['C09/read-back-is-what-was-generated-3'] = dict(
    vars=dict(LEMMAS['C09/written-file-is-readable-3']['vars'], M=('obj', 'Model')), theory=['listsets'], defs=_reader_defs(),
    hyps=[('requires', _SPA, _SPA_BIND), ('ensures', _SPA, dict(_SPA_BIND, result='R')),
          ('solver-flags-as-documented', 'NA() == 3 and TW() == (len(pref_lists_lecturers) != 0)'),
          ('T8-the-file-is-the-written-text', _file_is('2 + n1 + n2 + n3')),
          ('ghost-tie-decisions-first-side', _ties_of('1', 'n1', 'pref_lists_students', 'st_ties')),
          ('ensures', _RD, {'instance_options': 'instance_options', 'result': 'M'}, None, _RDE)],
    goals=[('counts', 'M.num_students == n1 and M.num_projects == n2 and M.num_lecturers == n3'),
           ('rows-are-the-student-lists-with-their-tie-groups', _rows_agree('pref_lists_students', 'st_ties')),
           ('project-quotas-and-lecturers-are-those-handed-over', 'len(M.proj_lower_quotas) == n2 and len(M.proj_upper_quotas) == n2 and forall(j, 0, n2, M.proj_lower_quotas[j] == lower_quotas[j]'
            ' and M.proj_upper_quotas[j] == upper_quotas[j] and M.proj_lecturers[j] == project_lecturers[j])'),
           ('lecturer-quotas-and-targets-are-those-handed-over', 'len(M.lec_lower_quotas) == n3 and forall(k, 0, n3, M.lec_lower_quotas[k] == lec_lower_quotas[k] and M.lec_targets[k] == lec_targets[k]'
            ' and M.lec_upper_quotas[k] == lec_upper_quotas[k])')])
