"""Sidecar contracts for the two generate_instances functions and the create_instance text assemblers (C08 / C09 / C12: which list is
written where).  create_instance is NOT verified (string assembly; bounded stand-in): its contract is a precondition only - the
well-formedness of everything it is asked to write - so verifying generate_instances proves that precondition at the call site for
every accepted argument record: every generated instance is handed to the writer well-formed."""
SPA = 'generator_spa:Generator_spa.'
HSH = 'generator_ha_sm_hr:Generator_ha_sm_hr.'
LL = ('list', ('list', 'int')); L = ('list', 'int')

# accepted arguments (postconditions of Instance_options_parser.parse, C15)
ARGS_OK = ['args.numberinstances >= 1', 'args.n1 >= 1', 'args.n2 >= 1',
           '1 <= args.minpreflistlength and args.minpreflistlength <= args.maxpreflistlength and args.maxpreflistlength <= args.n2',
           '0 <= args.ties1 and args.ties1 <= 1 and 0 <= args.ties2 and args.ties2 <= 1', 'args.skew > 0',
           '0 <= args.lowerquotas and args.lowerquotas <= args.upperquotas']
ARGS_SPA = ['args.n3 >= 1', '0 <= args.lecturerlowerquotas and args.lecturerlowerquotas <= args.lecturertargets and args.lecturertargets <= args.lecturerupperquotas']

FIRST_SIDE = ("len(%(F)s) == n1 and forall(i, 0, n1, dupfree(%(F)s[i]) and forall(x, implies(x in elems(%(F)s[i]), 1 <= x and x <= n2)))"
              " and len(%(T)s) == n1 and forall(i, 0, n1, len(%(T)s[i]) == len(%(F)s[i]))")
QUOTAS = "len(%(lo)s) == %(n)s and len(%(hi)s) == %(n)s and forall(j, 0, %(n)s, 0 <= %(lo)s[j] and %(lo)s[j] <= %(hi)s[j])"

CONTRACTS = {
 SPA + 'create_instance_info': dict(pure_text=True), HSH + 'create_instance_info': dict(pure_text=True),
 SPA + 'create_instance': dict(
    unverified=True,          # precondition-only contract: the body (text assembly) is covered by the bounded stand-in
    params={'n1': 'int', 'n2': 'int', 'n3': 'int', 'pref_lists_students': LL, 'st_ties': LL, 'project_lecturers': L, 'lower_quotas': L, 'upper_quotas': L,
            'pref_lists_lecturers': LL, 'lec_ties': LL, 'lec_lower_quotas': L, 'lec_targets': L, 'lec_upper_quotas': L, 'instance_info': ('str', 'info')},
    theory=['listsets'],
    requires=[('students-rank-distinct-projects-in-range-with-tie-flags-of-the-same-shape', FIRST_SIDE % dict(F='pref_lists_students', T='st_ties')),
              ('one-lecturer-in-range-per-project', 'len(project_lecturers) == n2 and forall(y, 0, n2, 1 <= project_lecturers[y] and project_lecturers[y] <= n3)'),
              ('project-quotas-ordered', QUOTAS % dict(lo='lower_quotas', hi='upper_quotas', n='n2')),
              ('lecturer-quotas-ordered', 'len(lec_lower_quotas) == n3 and len(lec_targets) == n3 and len(lec_upper_quotas) == n3 and forall(k, 0, n3, 0 <= lec_lower_quotas[k]'
               ' and lec_lower_quotas[k] <= lec_targets[k] and lec_targets[k] <= lec_upper_quotas[k])'),
              # C12: no second-side lists, or lecturer k+1 ranks student v exactly once iff v ranks a project that k+1 offers
              ('lecturer-lists-rank-exactly-the-students-who-rank-one-of-their-projects', 'len(pref_lists_lecturers) == 0 or (len(pref_lists_lecturers) == n3 and len(lec_ties) == n3'
               ' and forall(k, 0, n3, dupfree(pref_lists_lecturers[k]) and len(lec_ties[k]) == len(pref_lists_lecturers[k])'
               ' and forall(v, (v in elems(pref_lists_lecturers[k])) == (1 <= v and v <= n1 and exists(proj, proj in elems(pref_lists_students[v - 1]) and project_lecturers[proj - 1] == k + 1)))))')],
    returns=('str', 'instance')),
 HSH + 'create_instance': dict(
    unverified=True,
    params={'n1': 'int', 'n2': 'int', 'pref_lists_residents': LL, 'res_ties': LL, 'pref_lists_hospitals': LL, 'hosp_ties': LL, 'lower_quotas': L, 'upper_quotas': L,
            'instance_info': ('str', 'info')},
    theory=['listsets'],
    requires=[('first-side-ranks-distinct-agents-in-range-with-tie-flags-of-the-same-shape', FIRST_SIDE % dict(F='pref_lists_residents', T='res_ties')),
              ('quotas-ordered', QUOTAS % dict(lo='lower_quotas', hi='upper_quotas', n='n2')),
              ('second-side-lists-rank-exactly-those-who-rank-them', 'len(pref_lists_hospitals) == 0 or (len(pref_lists_hospitals) == n2 and len(hosp_ties) == n2'
               ' and forall(h, 0, n2, dupfree(pref_lists_hospitals[h]) and len(hosp_ties[h]) == len(pref_lists_hospitals[h])'
               ' and forall(v, (v in elems(pref_lists_hospitals[h])) == (1 <= v and v <= n1 and (h + 1) in elems(pref_lists_residents[v - 1])))))')],
    returns=('str', 'instance')),

 SPA + 'generate_instances': dict(
    params={'args': ('obj', 'GenArgs')}, self_fields={}, theory=['listsets'],
    requires=ARGS_OK + ARGS_SPA + ['args.upperquotas >= args.n2'],
    loops={0: dict(invariant=[])},
    use_lemmas={'after_call:create_instance_info': [
        ('C08/spread-monotone', {'n': 'args.n2', 'a': 'args.lowerquotas', 'b': 'args.upperquotas'}),
        ('C09/quota-order', {'n': 'args.n3', 'llq': 'args.lecturerlowerquotas', 'lt': 'args.lecturertargets', 'luq': 'args.lecturerupperquotas'})]},
    ensures=[]),
 HSH + 'generate_instances': dict(
    params={'args': ('obj', 'GenArgs')}, self_fields={}, theory=['listsets'],
    requires=ARGS_OK + ['args.upperquotas >= args.n2'],
    loops={0: dict(invariant=[])},
    use_lemmas={'after_call:create_instance_info': [('C08/spread-monotone', {'n': 'args.n2', 'a': 'args.lowerquotas', 'b': 'args.upperquotas'})]},
    ensures=[]),
}
