"""Sidecar contracts for the two generate_instances functions and the create_instance text assemblers (C08 / C09 / C12: which list is
written where).  create_instance is verified over the lexical view of the text it assembles (pyvc/models_text.py: lines of blank-separated
tokens, the view the reader has of the file): header, one numbered line per agent with exactly the numbers and the bracketed list it was
handed, a blank line, then the parameter block.  Its precondition is the well-formedness of everything it is asked to write, so verifying
generate_instances proves that precondition at the call site for every accepted argument record."""
SPA = 'generator_spa:Generator_spa.'
HSH = 'generator_ha_sm_hr:Generator_ha_sm_hr.'
LL = ('list', ('list', 'int')); L = ('list', 'int')

# accepted arguments (postconditions of Instance_options_parser.parse, C15)
ARGS_OK = ['args.numberinstances >= 1', 'args.n1 >= 1', 'args.n2 >= 1',
           '1 <= args.minpreflistlength and args.minpreflistlength <= args.maxpreflistlength and args.maxpreflistlength <= args.n2',
           '0 <= args.ties1 and args.ties1 <= 1 and 0 <= args.ties2 and args.ties2 <= 1', 'args.skew > 0',
           '0 <= args.lowerquotas and args.lowerquotas <= args.upperquotas']
ARGS_SPA = ['args.n3 >= 1', '0 <= args.lecturerlowerquotas and args.lecturerlowerquotas <= args.lecturertargets and args.lecturertargets <= args.lecturerupperquotas']

FIRST_SIDE = ("len(%(F)s) == n1 and forall(i, 0, n1, dupfree(%(F)s[i]) and forall(x, implies(x in elems(%(F)s[i]), 1 <= x and x <= n2)))"
              " and len(%(T)s) == n1 and forall(i, 0, n1, len(%(T)s[i]) == len(%(F)s[i]))")
QUOTAS = "len(%(lo)s) == %(n)s and len(%(hi)s) == %(n)s and forall(j, 0, %(n)s, 0 <= %(lo)s[j] and %(lo)s[j] <= %(hi)s[j])"

# ---- the written text seen through the lexical layer (pyvc/models_text.py): text_len(T) lines, text_toks(T, i) the tokens of line i
def plain(T, i, q, val): return "kind(text_toks(%s, %s)[%s]) == 0 and value(text_toks(%s, %s)[%s]) == %s" % (T, i, q, T, i, q, val)
TEXT_DEFS = {
 # tokens off.. of line i are the bracketed rendering of list L under the tie decisions D (the tie writer's postcondition, C13); stated by token position q
 'list_written': (['T', 'i', 'off', 'L', 'D'], 'len(text_toks(T, i)) == off + len(L) and forall(q, off, len(text_toks(T, i)), value(text_toks(T, i)[q]) == L[q - off]'
                                               ' and kind(text_toks(T, i)[q]) == spec_kind(D, q - off, len(L)), text_toks(T, i)[q])'),
 'fields2': (['T', 'i', 'a', 'b'], plain('T', 'i', '0', 'a') + ' and ' + plain('T', 'i', '1', 'b')),
 'fields3': (['T', 'i', 'a', 'b', 'c'], plain('T', 'i', '0', 'a') + ' and ' + plain('T', 'i', '1', 'b') + ' and ' + plain('T', 'i', '2', 'c')),
 'fields4': (['T', 'i', 'a', 'b', 'c', 'd'], plain('T', 'i', '0', 'a') + ' and ' + plain('T', 'i', '1', 'b') + ' and ' + plain('T', 'i', '2', 'c') + ' and ' + plain('T', 'i', '3', 'd')),
}
# every line predicate is stated by LINE NUMBER ln (the agent written there is ln - <first line of its section>), so that a fact about the
# file's line ln instantiates the writer's postcondition by matching, without arithmetic in the trigger
HSH_DEFS = dict(TEXT_DEFS,
 header=(['T'], 'len(text_toks(T, 0)) == 2 and fields2(T, 0, n1, n2) and not text_colon(T, 0)'),
 res_line=(['T', 'ln'], plain('T', 'ln', '0', 'ln') + ' and list_written(T, ln, 1, pref_lists_residents[ln - 1], res_ties[ln - 1])'),
 hosp_line=(['T', 'ln'], 'fields3(T, ln, ln - n1, lower_quotas[ln - n1 - 1], upper_quotas[ln - n1 - 1])'
                         ' and ite(len(pref_lists_hospitals) == 0, len(text_toks(T, ln)) == 3, list_written(T, ln, 3, pref_lists_hospitals[ln - n1 - 1], hosp_ties[ln - n1 - 1]))'),
 res_lines=(['T', 'k'], 'forall(ln, 1, 1 + k, res_line(T, ln), text_toks(T, ln), len(text_toks(T, ln)))'),
 hosp_lines=(['T', 'k'], 'forall(ln, 1 + n1, 1 + n1 + k, hosp_line(T, ln), text_toks(T, ln), len(text_toks(T, ln)))'))
SPA_DEFS = dict(TEXT_DEFS,
 header=(['T'], 'len(text_toks(T, 0)) == 3 and fields3(T, 0, n1, n2, n3) and not text_colon(T, 0)'),
 st_line=(['T', 'ln'], plain('T', 'ln', '0', 'ln') + ' and list_written(T, ln, 1, pref_lists_students[ln - 1], st_ties[ln - 1])'),
 proj_line=(['T', 'ln'], 'len(text_toks(T, ln)) == 4 and fields4(T, ln, ln - n1, lower_quotas[ln - n1 - 1], upper_quotas[ln - n1 - 1], project_lecturers[ln - n1 - 1])'),
 lec_line=(['T', 'ln'], 'fields4(T, ln, ln - n1 - n2, lec_lower_quotas[ln - n1 - n2 - 1], lec_targets[ln - n1 - n2 - 1], lec_upper_quotas[ln - n1 - n2 - 1])'
                        ' and ite(len(pref_lists_lecturers) == 0, len(text_toks(T, ln)) == 4, list_written(T, ln, 4, pref_lists_lecturers[ln - n1 - n2 - 1], lec_ties[ln - n1 - n2 - 1]))'),
 st_lines=(['T', 'k'], 'forall(ln, 1, 1 + k, st_line(T, ln), text_toks(T, ln), len(text_toks(T, ln)))'),
 proj_lines=(['T', 'k'], 'forall(ln, 1 + n1, 1 + n1 + k, proj_line(T, ln), text_toks(T, ln), len(text_toks(T, ln)))'),
 lec_lines=(['T', 'k'], 'forall(ln, 1 + n1 + n2, 1 + n1 + n2 + k, lec_line(T, ln), text_toks(T, ln), len(text_toks(T, ln)))'))

# Generator.__init__ (the API entry point): parse, then dispatch to the generator of the problem type.  Verified per problem type with the option
# parser INLINED (force_inline), so that every precondition of generate_instances is a call-site obligation discharged from the checks parse performed:
# C15's accepted set is composed with C08's requirements by execution, not by inspection.  The skew is outside C15's bound list: positive when given.
CONTRACTS = {
 'generator:Generator.__init__': dict(
    params={'args': ('ext', 'argv')}, self_fields={},
    defs={'has': (['x'], 'not (x == None)')},
    requires=[('skew-positive-when-given', "implies(has(given('skew')), given('skew') > 0)")],
    ensures=[('one-file-written-per-requested-instance', 'files_written() == old(files_written()) + self.args.numberinstances'),
             ('files-numbered-in-order-each-with-the-header-of-the-problem-type', "forall(w, old(files_written()), files_written(), file_named_ok(w) and file_index(w) == w - old(files_written())"
              " and file_has_text(w) and len(text_toks(file_text(w), 0)) == ite(given('matchingproblem') == 'spa', 3, 2), file_index(w))")]),
 SPA + 'create_instance_info': dict(pure_text=True), HSH + 'create_instance_info': dict(pure_text=True),
 SPA + 'create_instance': dict(
    locals={'instance_string': 'text'}, defs=SPA_DEFS,
    loops={0: dict(invariant=[('one-line-per-student-so-far', 'text_len(instance_string) == 1 + _k'), ('header', 'header(instance_string)'),
                              ('student-lines-so-far', 'st_lines(instance_string, _k)')]),
           1: dict(invariant=[('one-line-per-project-so-far', 'text_len(instance_string) == 1 + n1 + _k'), ('header', 'header(instance_string)'),
                              ('student-lines', 'st_lines(instance_string, n1)'), ('project-lines-so-far', 'proj_lines(instance_string, _k)')]),
           2: dict(invariant=[('one-line-per-lecturer-so-far', 'text_len(instance_string) == 1 + n1 + n2 + _k'), ('header', 'header(instance_string)'),
                              ('student-lines', 'st_lines(instance_string, n1)'), ('project-lines', 'proj_lines(instance_string, n2)'),
                              ('lecturer-lines-so-far', 'lec_lines(instance_string, _k)')])},
    params={'n1': 'int', 'n2': 'int', 'n3': 'int', 'pref_lists_students': LL, 'st_ties': LL, 'project_lecturers': L, 'lower_quotas': L, 'upper_quotas': L,
            'pref_lists_lecturers': LL, 'lec_ties': LL, 'lec_lower_quotas': L, 'lec_targets': L, 'lec_upper_quotas': L, 'instance_info': ('str', 'info')},
    theory=['listsets'],
    requires=[('students-rank-distinct-projects-in-range-with-tie-flags-of-the-same-shape', FIRST_SIDE % dict(F='pref_lists_students', T='st_ties')),
              ('one-lecturer-in-range-per-project', 'len(project_lecturers) == n2 and forall(y, 0, n2, 1 <= project_lecturers[y] and project_lecturers[y] <= n3)'),
              ('project-quotas-ordered', QUOTAS % dict(lo='lower_quotas', hi='upper_quotas', n='n2')),
              ('lecturer-quotas-ordered', 'len(lec_lower_quotas) == n3 and len(lec_targets) == n3 and len(lec_upper_quotas) == n3 and forall(k, 0, n3, 0 <= lec_lower_quotas[k]'
               ' and lec_lower_quotas[k] <= lec_targets[k] and lec_targets[k] <= lec_upper_quotas[k])'),
              # C12: no second-side lists, or lecturer k+1 ranks student v exactly once iff v ranks a project that k+1 offers
              ('lecturer-lists-rank-exactly-the-students-who-rank-one-of-their-projects', 'len(pref_lists_lecturers) == 0 or (len(pref_lists_lecturers) == n3 and len(lec_ties) == n3'
               ' and forall(k, 0, n3, dupfree(pref_lists_lecturers[k]) and len(lec_ties[k]) == len(pref_lists_lecturers[k])'
               ' and forall(v, (v in elems(pref_lists_lecturers[k])) == (1 <= v and v <= n1 and exists(proj, proj in elems(pref_lists_students[v - 1]) and project_lecturers[proj - 1] == k + 1)))))')],
    returns='text',
    ensures=[('header-line-carries-the-three-counts', 'header(result)'),
             ('one-numbered-line-per-student-with-exactly-the-list-handed-over', 'st_lines(result, n1)'),
             ('one-numbered-line-per-project-with-quotas-and-lecturer', 'proj_lines(result, n2)'),
             ('one-numbered-line-per-lecturer-with-quotas-target-and-list-only-when-given', 'lec_lines(result, n3)'),
             ('blank-line-then-the-parameter-block', 'text_len(result) >= 2 + n1 + n2 + n3 and len(text_toks(result, 1 + n1 + n2 + n3)) == 0')]),
 HSH + 'create_instance': dict(
    locals={'instance_string': 'text', 'string_pref_list': ('list', 'tok')}, defs=HSH_DEFS,
    loops={0: dict(invariant=[('one-line-per-first-side-agent-so-far', 'text_len(instance_string) == 1 + _k'), ('header', 'header(instance_string)'),
                              ('first-side-lines-so-far', 'res_lines(instance_string, _k)')]),
           1: dict(invariant=[('one-line-per-second-side-agent-so-far', 'text_len(instance_string) == 1 + n1 + _k'), ('header', 'header(instance_string)'),
                              ('first-side-lines', 'res_lines(instance_string, n1)'), ('second-side-lines-so-far', 'hosp_lines(instance_string, _k)')])},
    params={'n1': 'int', 'n2': 'int', 'pref_lists_residents': LL, 'res_ties': LL, 'pref_lists_hospitals': LL, 'hosp_ties': LL, 'lower_quotas': L, 'upper_quotas': L,
            'instance_info': ('str', 'info')},
    theory=['listsets'],
    requires=[('first-side-ranks-distinct-agents-in-range-with-tie-flags-of-the-same-shape', FIRST_SIDE % dict(F='pref_lists_residents', T='res_ties')),
              ('quotas-ordered', QUOTAS % dict(lo='lower_quotas', hi='upper_quotas', n='n2')),
              ('second-side-lists-rank-exactly-those-who-rank-them', 'len(pref_lists_hospitals) == 0 or (len(pref_lists_hospitals) == n2 and len(hosp_ties) == n2'
               ' and forall(h, 0, n2, dupfree(pref_lists_hospitals[h]) and len(hosp_ties[h]) == len(pref_lists_hospitals[h])'
               ' and forall(v, (v in elems(pref_lists_hospitals[h])) == (1 <= v and v <= n1 and (h + 1) in elems(pref_lists_residents[v - 1])))))')],
    returns='text',
    ensures=[('header-line-carries-the-two-counts', 'header(result)'),
             ('one-numbered-line-per-first-side-agent-with-exactly-the-list-handed-over', 'res_lines(result, n1)'),
             ('one-numbered-line-per-second-side-agent-with-quotas-and-list-only-when-given', 'hosp_lines(result, n2)'),
             ('blank-line-then-the-parameter-block', 'text_len(result) >= 2 + n1 + n2 and len(text_toks(result, 1 + n1 + n2)) == 0')]),

 SPA + 'generate_instances': dict(
    params={'args': ('obj', 'GenArgs')}, self_fields={}, theory=['listsets'],
    modifies=['ghost:fs_n', 'ghost:fs_idx', 'ghost:fs_shaped', 'ghost:fs_txt', 'ghost:fs_hastxt'],          # the ghost log of file writes (callers must not assume it unchanged)
    defs={'file_ok': (['w', 'u'], 'file_named_ok(w) and file_index(w) == u and file_has_text(w) and len(text_toks(file_text(w), 0)) == 3 and value(text_toks(file_text(w), 0)[0]) == args.n1 and value(text_toks(file_text(w), 0)[1]) == args.n2 and value(text_toks(file_text(w), 0)[2]) == args.n3 and text_len(file_text(w)) >= 2 + args.n1 + args.n2 + args.n3')},
    requires=ARGS_OK + ARGS_SPA + ['args.upperquotas >= args.n2'],
    loops={0: dict(invariant=[('one-file-written-per-instance-so-far', 'files_written() == old(files_written()) + _k'),
                              ('files-so-far-are-numbered-in-order-and-hold-an-instance-text', 'forall(w, old(files_written()), old(files_written()) + _k, file_ok(w, w - old(files_written())), file_index(w))')])},
    use_lemmas={'after_call:create_instance_info': [
        ('C08/spread-monotone', {'n': 'args.n2', 'a': 'args.lowerquotas', 'b': 'args.upperquotas'}),
        ('C09/quota-order', {'n': 'args.n3', 'llq': 'args.lecturerlowerquotas', 'lt': 'args.lecturertargets', 'luq': 'args.lecturerupperquotas'})]},
    ensures=[('exactly-the-requested-number-of-files', 'files_written() == old(files_written()) + args.numberinstances'),
             ('files-are-named-0-1-2-in-the-output-directory-and-each-holds-an-instance-text-with-the-requested-counts', 'forall(w, old(files_written()), old(files_written()) + args.numberinstances, file_ok(w, w - old(files_written())), file_index(w))')]),
 HSH + 'generate_instances': dict(
    params={'args': ('obj', 'GenArgs')}, self_fields={}, theory=['listsets'],
    modifies=['ghost:fs_n', 'ghost:fs_idx', 'ghost:fs_shaped', 'ghost:fs_txt', 'ghost:fs_hastxt'],          # the ghost log of file writes (callers must not assume it unchanged)
    defs={'file_ok': (['w', 'u'], 'file_named_ok(w) and file_index(w) == u and file_has_text(w) and len(text_toks(file_text(w), 0)) == 2 and value(text_toks(file_text(w), 0)[0]) == args.n1 and value(text_toks(file_text(w), 0)[1]) == args.n2 and text_len(file_text(w)) >= 2 + args.n1 + args.n2')},
    requires=ARGS_OK + ['args.upperquotas >= args.n2'],
    loops={0: dict(invariant=[('one-file-written-per-instance-so-far', 'files_written() == old(files_written()) + _k'),
                              ('files-so-far-are-numbered-in-order-and-hold-an-instance-text', 'forall(w, old(files_written()), old(files_written()) + _k, file_ok(w, w - old(files_written())), file_index(w))')])},
    use_lemmas={'after_call:create_instance_info': [('C08/spread-monotone', {'n': 'args.n2', 'a': 'args.lowerquotas', 'b': 'args.upperquotas'})]},
    ensures=[('exactly-the-requested-number-of-files', 'files_written() == old(files_written()) + args.numberinstances'),
             ('files-are-named-0-1-2-in-the-output-directory-and-each-holds-an-instance-text-with-the-requested-counts', 'forall(w, old(files_written()), old(files_written()) + args.numberinstances, file_ok(w, w - old(files_written())), file_index(w))')]),
}
