"""Property registry: which functions / lemmas decide each property, the bounded stand-in, the trusted base."""
GS = 'generator_shared:'; FIO = 'fileIO:'

T = {
 'T5': 'T5 name model: names built from literals and str(int) are equal iff pieces and integers are equal',
 'T6': 'T6 str/int: int(str(n)) = n for n >= 0; str(n) contains no parenthesis, colon or blank',
 'T7': 'T7 lexical layer: split()/join behave as documented on blank-free tokens',
}

PROPS = {
 'C13': dict(
    title='Ties written by the generator are read back as the same ties by the solver',
    functions=[GS + 'create_string_pref', FIO + '_get_simple_pref_list_and_ranks', 'generator_spa:Generator_spa.create_instance', 'generator_ha_sm_hr:Generator_ha_sm_hr.create_instance',
               FIO + '_create_pairs_row', FIO + '_create_student_ranks'],
    lemmas=['C13/writer-shape', 'C13/compose', 'C09/written-file-is-readable-2', 'C09/written-file-is-readable-3', 'C09/read-back-is-what-was-generated-2', 'C09/read-back-is-what-was-generated-3'],
    level_text='writer and reader verified for every list length and every tie-decision vector by loop invariants (no bound); composition lemma proves the property statement from the two postconditions; both create_instance functions are verified to put every list on its own line bracketed by ITS OWN tie vector (lexical text model), the reader hands every line\'s tokens to the tie reader (_create_pairs_row, _create_student_ranks), and lemmas C09/read-back-is-what-was-generated-2/-3 conclude that the rank steps of every row read back are the generator\'s tie decisions',
    harness=True, bound='list length <= 8 (quick) / 12 (thorough), all 2^n decision vectors',
    trusted=[T['T6'], T['T7']],
    assumptions=['token strings are abstracted through the shape table Plain n | Open "(n" | Close "n)" (characters are T6/T7)',
                 'Python int is unbounded; list displays do not alias']),
}

PROPS['C17'] = dict(
    title='Popularity skew is linear with the requested ratio',
    functions=[GS + 'create_linear_distribution', GS + 'create_pref_lists_original'],
    lemmas=['C17/sum-positive', 'C17/scaled-sum', 'LISTSET/empty-append', 'LISTSET/iterate'],
    level_text='postcondition (positive, sums to one, arithmetic progression, last = skew*first, n=1 gives [1]) proved over the reals for every n >= 1 and skew > 0 by a loop invariant and two induction lemmas; create_pref_lists_original hands exactly these weights to every draw (assertion on the p argument of np.random.choice in every iteration); floating-point rounding is outside the contract and only covered by the labelled bounded grid check',
    harness=True, bound='n <= 40 (quick) / 200 (thorough), 18 fixed skews + seeded random skews; tolerance 1e-9 relative',
    trusted=['T10 numpy: np.sum is the mathematical sum; array / scalar divides elementwise',
             'float treated as mathematical real (DESIGN 3.1); induction principle of the lemma engine'],
    assumptions=['floating point idealised as reals; the bounded grid check is the only evidence about rounding',
                 'Python int is unbounded'])
SPA = 'generator_spa:Generator_spa.'
PROPS['C12'] = dict(
    title='Second-side lists rank exactly the agents that find them acceptable',
    functions=[GS + 'create_pref_lists_from_other_lists', SPA + 'create_student_lec_lists', GS + 'create_ties_indicators', SPA + 'generate_instances', 'generator_ha_sm_hr:Generator_ha_sm_hr.generate_instances', SPA + 'create_instance', 'generator_ha_sm_hr:Generator_ha_sm_hr.create_instance'],
    lemmas=['C12/spa-compose', 'LISTSET/empty-append', 'LISTSET/permute', 'LISTSET/iterate'],
    level_text='both inversion functions verified for all list shapes by loop invariants over the element-set view of lists (exactly-once = duplicate-free + membership iff); SPA composition lemma proves the lecturer statement; the list-set fact schemas are themselves proved from the definitions; both generate_instances functions are verified as wiring: for every accepted argument record, what is handed to create_instance (the writer) satisfies the property statement itself - second-side lists rank exactly those who rank them (SPA: who rank one of the lecturer\'s projects), each once - as a call-site obligation',
    harness=True, bound='<= 5 agents per side, <= 6 projects, <= 4 lecturers; whole generator runs n <= 6',
    trusted=['T10 random.shuffle permutes its argument in place; np.random.choice returns values of positive probability',
             'T10 np.random.choice(replace=False) returns distinct elements (precondition first-side-lists-duplicate-free)',
             'T7 lexical layer: create_instance is verified over lines of blank-separated tokens (pyvc/models_text.py), not characters'],
    assumptions=['list-set view: facts instantiated by the engine at append/empty/shuffle/iteration, each justified by a LISTSET lemma',
                 'Python int is unbounded; list displays do not alias; the loop variable of `for x in lists: shuffle(x)` aliases the element (modelled)'])
IOP = 'instance_options_parser:Instance_options_parser.'
def GEN_INIT(mp): return ('generator:Generator.__init__', {'argv_fixed': {'matchingproblem': mp}, 'force_inline': (IOP + 'parse',), 'declared_args': {'skew': {'dest': 'skew', 'type': 'float'}}})
PROPS['C15'] = dict(
    title='Generator accepts every documented argument set and cleanly rejects invalid ones',
    functions=[(IOP + 'parse', {'argv_fixed': {'matchingproblem': mp}}) for mp in ('ha', 'sm', 'hr', 'spa')] + [GEN_INIT(mp) for mp in ('ha', 'sm', 'hr', 'spa')],
    lemmas=[],
    level_text='full-domain symbolic execution of Instance_options_parser.parse (helpers inlined, table loops unrolled exactly) per problem type, every other argument absent-or-any-value: returns normally iff Legal(args), otherwise SystemExit(2); every comparison with None is a safety obligation; complete for all integers / reals, no bound',
    harness=True, bound='legal base vectors with n <= 6 and all single-fault perturbations; quick 3 bases per type, thorough 40',
    trusted=['T9 argparse: parse_args yields typed values or the declared defaults (None / False) or exits with code 2; parser.error raises SystemExit(2); get_default returns the declared default',
             'float arguments treated as reals'],
    assumptions=['Legal(type, args) is transcribed from the README "require the following arguments" lists and the bound list in the property statement',
                 'Generator.__init__ is verified per problem type with the option parser inlined: parse runs before anything else, and every precondition of generate_instances (hence of every generator function below it) is a call-site obligation discharged from the checks the parser performed - "accepted and produces the instances without error" is composed by execution, for a positive skew when one is given (the skew is not in the bound list of the statement); nothing written on rejection: bounded runs'])
OPP = 'options_parser:Options_parser.'
PROPS['C16'] = dict(
    title='Criteria run in position order; invalid solver option sets are refused',
    functions=[OPP + '_get_ordered_optimisations', (OPP + 'parse', {'argparse_py': True})],
    lemmas=['C16/occupy-step', 'C16/pigeonhole'],
    level_text='full-domain symbolic execution of Options_parser.parse over the nine criterion slots (each absent | int | list of ints, any integers): refuses iff a position is outside 1..9, two positions coincide or -stab without -twopl; otherwise every requested criterion sits at index = number of requested criteria with a smaller position, with its own extras; literal-table loops unrolled exactly with state merging; staged counting lemma for "shared position <=> fewer occupied positions"',
    harness=True, bound='all position pairs over {absent,0,1,2,3,9,10} for every pair of criteria + seeded random option sets over all nine',
    trusted=['T9 argparse: optional int arguments are None or an int, nargs=+ arguments None or a non-empty list of ints; parser.error raises SystemExit(2)'],
    assumptions=['the reporting order of the "- optimisation:" lines (run_optimisations) is covered under C04/C14 contracts of lp_solver once built; here by the bounded runs only',
                 'Solver.__init__ calls parse before import_model (sequential code, checked by the bounded runs with a nonexistent file name)'])
MOD = 'model:Model.'
PROPS['C06'] = dict(
    title='Stability checker answers True exactly for matchings without a blocking pair',
    functions=[MOD + 'get_num_assignments_projects', MOD + 'get_num_assignments_lecturers', MOD + 'get_worst_rank_projects',
               MOD + 'get_worst_rank_lecturers', MOD + 'check_stability'],
    lemmas=[],
    level_text='check_stability verified against the SPA-STL blocking-pair definition for every instance size and every assignment list (entries None or a usable two-sided pair): result == not exists blocking pair, via search-loop invariants; the four helpers have count / worst-rank postconditions; every comparison with None is a safety obligation (always returns a boolean)',
    harness=True, bound='<= 3 students x <= 3 projects x <= 3 lecturers, all upper-quota-respecting assignments',
    trusted=['blocking() is transcribed from the property statement (conditions 2, 3a, 3b, 3c)'],
    assumptions=['precondition ModelWF (sizes_ok, pairs_ok, two_sided) is established by the reader (C10); the printed stability_correct line additionally relies on C05 (LP) contracts',
                 'Python int is unbounded'])
BF = 'brute_force_solver:Brute_force_solver.'
PROPS['C07'] = dict(
    title='Brute-force mode reports the exact optimum of every statistic it prints',
    functions=[BF + 'moregre', BF + 'moregen', BF + 'get_matching_pairs', BF + 'is_valid', BF + 'run', BF + 'get_results',
               MOD + '_get_max_rank', MOD + 'get_max_lec_upper_quota', MOD + '_get_cost', MOD + '_get_cost_sq', MOD + '_get_degree',
               MOD + '_get_profile', MOD + '_get_lec_abs_diffs', MOD + '_get_max_lec_abs_diff', MOD + '_get_sum_lec_abs_diff', MOD + '_get_profile_string'],
    lemmas=['SUM/le', 'SUM/const', 'C07/greedy-order-total', 'C07/generous-order-total'],
    level='other',
    level_text='proved for all instance sizes: comparators are the strict lexicographic orders (first / last difference), total on profiles of one length; is_valid == Valid (incl. closure rule); get_matching_pairs; the statistic helpers == the measures; run never raises (every index, comparison and callee precondition), every profile has one entry per rank; fold over the enumeration with a ghost history of the nine statistics: optimal_size = -1 iff no enumerated assignment is valid and otherwise the maximum valid size; each of the eight further accumulators is BOTH a bound (no maximum-size / valid assignment has a better value) AND attained by an enumerated assignment of that class - the initial values (zero profile, largest upper quota, that times the number of lecturers) are shown to dominate every valid assignment (count bounds, sum lemmas), so they never win wrongly; get_results prints Infeasible iff optimal_size = -1 and otherwise each stored optimum.  NOT proved: that itertools.product enumerates every assignment (T11), and the layout of the profile string',
    harness=True, bound='<= 3 students x <= 3 projects x <= 3 lecturers, +-pc, exhaustive optimum by enumeration',
    budget={'quick': 20, 'thorough': 240},
    trusted=['T11 itertools.product enumerates every tuple over range(m) once (completeness of the enumeration is assumed; the fold is proved over whatever it enumerates)',
             'T12 datetimes modelled as seconds; strftime opaque',
             'callers see _get_profile_string as a pure text function of the profile; its body is verified separately ("<", one number per rank in rank order, ">"), the two compose by function identity'],
    assumptions=['well-formed instance: 0 <= target <= upper quota for every lecturer (precondition of run; for generated files this is C09/quota-order), at least one lecturer',
                 'ModelWF precondition from the reader (C10)',
                 'the correspondence between enumerated tuples and matchings (T11 + get_matching_pairs contract) is not composed into one statement; the bounded stand-in compares with an independent enumeration'])
LP = 'lp_solver:LP_Solver.'
T_LP = ['T1 PuLP expression algebra: LpVariable, LpAffineExpression, + - * by ints, +=/-=, lpSum and the comparison operators build the constraint with the evident value under any valuation',
        'T2 prob += adds a constraint and never removes one; prob.objective = e replaces only the objective (distinct constraint names: checked by the bounded runs only)',
        'T3 PuLP/CBC solve: status Optimal comes with an integral valuation satisfying every constraint and optimal for the objective; Infeasible iff no valuation exists; variable identity = its name (datatype Var)',
        'T11 chain.from_iterable concatenates (assumed lemma FLAT/sum: the sum over the concatenation is the sum of the row sums)']
CRIT_FUNCS = [LP + f for f in ('perform_optimisation', 'get_all_pairs_vars', 'get_all_vars_at_rank', 'optimisation_maxsize', 'optimisation_minsize',
              'optimisation_generous', 'optimisation_greedy', 'optimisation_mincost', 'optimisation_minsqcost', 'optimisation_mincostlsb',
              'optimisation_loadmaxbal', 'optimisation_loadsumbal', 'loadbalancing_constraints')]
EXACT = ('each function is verified against an EXACT characterisation of what it adds to the integer program, under an arbitrary ghost valuation nu of the LP '
         'variables: feas() == (old(feas()) and <the stated constraints>), which is soundness and completeness of the constraint set at once, for every instance size; ')
PROPS['C01'] = dict(
    title='Reported matching is always a valid matching of the input instance',
    functions=[LP + 'upper_lower_constraints', LP + 'run_optimisations', LP + 'run', MOD + 'pulp_setup', 'solver:Solver.solve', MOD + '_get_pair_assignments', MOD + '_get_matching_string',
               MOD + 'set_project_lists', MOD + 'set_lecturer_lists', MOD + 'get_results', 'solver:Solver.get_results_short', 'solver:Solver.get_results_long'],
    lemmas=['C01/closure-pair', 'C01/reported-matching-valid', 'SUM/ext', 'LISTSET/empty-append', 'LISTSET/iterate'], level='proof',
    level_text=EXACT + 'upper_lower_constraints adds exactly: every row sum <= 1, every project list sum within [lq, uq] (or the closure-gated pair), every lecturer list sum within [lq, uq]; run / run_optimisations never remove a constraint; Model.pulp_setup creates exactly one binary variable per acceptable pair (named by student and project number) and adds nothing but domains; Solver.solve builds a fresh problem, establishes every precondition of LP_Solver.run and guarantees that EVERY valuation satisfying the solved program is 0/1 on the pair variables and satisfies the row / project / lecturer constraints; set_project_lists / set_lecturer_lists: for every weight function of pair objects the weights on list j add up to the weights of the pairs with index j (each pair of that project / lecturer exactly once - catches a pair appended twice, which the element-set view cannot); _get_pair_assignments: the project / lecturer / student loads of the list read back from the solution are the sums of the reported values over the pairs of that project / lecturer / row; composition lemma C01/reported-matching-valid (T3 made explicit: nu := the reported valuation) derives the two solution preconditions of Model.get_results, which proves valid_list(printed pairs, -pc) whenever it prints a matching; _get_matching_string prints exactly that list',
    harness=True, bound='<= 4 students x <= 3 projects x <= 3 lecturers, 0-3 random criteria, real CBC',
    budget={'quick': 25, 'thorough': 300}, trusted=T_LP,
    assumptions=['T3: a status Optimal comes with a valuation satisfying the program (also for a time-limit stop with an incumbent)',
                 'the model at solve time is the one the reader built (derived lists as set_project_lists / set_lecturer_lists left them; the verified frames of pulp_setup / solve / run touch only variables and result fields); the reader itself is C10',
                 'a student does not list one project twice (two pairs with equal numbers would share one variable name)',
                 ])
PROPS['C02'] = dict(
    title='Solver reports Optimal exactly when a feasible matching exists; never errors',
    functions=[LP + 'run', LP + 'run_optimisations', MOD + 'pulp_setup', 'solver:Solver.solve', LP + 'upper_lower_constraints', LP + 'stability_constraints'] + CRIT_FUNCS,
    lemmas=['SUM/ext', 'SUM/le', 'SUM/const', 'SUM/nonneg', 'C02/size-bound', 'C02/rank-sums-compose', 'C02/cost-term', 'C02/studentcost-term', 'C02/sqcost-term', 'C02/sq-bound-dominates', 'SUM/scale', 'C02/mincost-bound', 'C02/studentcost-bound', 'C02/sqcost-bound', 'C03/freeze-opt'], level='proof',
    level_text=EXACT + 'run: never raises, solves at least once, returns the status of the last solve, only the last solve may have failed; every criterion creates a variable with a fresh literal name (duplicate names raise in PuLP); Solver.solve never raises in either mode and hands LP_Solver.run a fresh problem with all variables the requested options need (Model.pulp_setup).  Witness-in-bounds (the bounds of an objective variable admit the measure of EVERY matching feasible before the criterion, so that linking the variable excludes none - the completeness half of "criteria never turn a feasible instance infeasible") is proved for maxsize, minsize, generous, greedy (the number of students at a rank is a sum over a rank list; the rank lists\' sum identity - required for EVERY weight of pair objects and instantiated inside the function with the variable values - turns it into a filtered sum over all pairs <= sum of the row sums <= number of students), lmb, lsb and for the per-lecturer deviation variables (|load - target| <= upper quota for every feasible matching, given 0 <= lower quota and 0 <= target <= upper quota; the deviation values are bounded by the upper quotas, so their maximum fits under the largest upper quota and their sum under the sum of the upper quotas - the two bounds that defects 1 and 2 had wrong).  For the size criteria: Solver.solve hands run a program whose solutions are 0/1 on the pair variables, add_constraints makes every row a partial assignment (row sums in [0,1], non-negativity by lemma SUM/nonneg for every row), run_optimisations keeps that as an invariant, and C02/size-bound gives 0 <= size <= number of students.  For the three weighted cost criteria (symbolic multipliers, nonlinear): lemmas C02/mincost-bound, C02/sqcost-bound, C02/studentcost-bound (one pair costs at most nu*K by a quantifier-free nonlinear term lemma; a row at most K*(row sum) <= K by SUM/scale; all rows at most students*K, which the declared bound dominates) under non-negative multipliers and ranks bounded by the number of rankable agents / the maximum rank - the three bounds defects 1 and 3 had wrong.  With C03/freeze-opt (linking excludes no feasible valuation; the frozen set is non-empty) no criterion turns a feasible program infeasible',
    harness=True, bound='<= 5 students x <= 3 projects x <= 3 lecturers incl. objective-bound stress instances, 0-3 random criteria, real CBC',
    budget={'quick': 30, 'thorough': 400}, trusted=T_LP,
    assumptions=['well-formed instance: a student rank never exceeds the number of projects, a lecturer rank never the number of students; admissible options: non-negative multipliers', 'by inspection: the criteria postconditions are instances of the hypotheses of C03/freeze-opt (F := feas() before the criterion as a set of valuations)', 'well-formed lecturer quotas (0 <= lower, 0 <= target <= upper) are a precondition of Solver.solve (C09/quota-order for generated files)', 'FLAT/sum assumed (T11)'])
PROPS['C03'] = dict(
    title='Each optimisation criterion optimises the quantity it is documented to optimise',
    functions=CRIT_FUNCS + [LP + 'run', LP + 'run_optimisations'], lemmas=['SUM/ext', 'C03/freeze-opt', 'C02/mincost-bound', 'C02/studentcost-bound', 'C02/sqcost-bound', 'C02/rank-sums-compose'], level='proof',
    level_text=EXACT + 'per criterion: LINK (objective variable == the documented measure written as sums over the code\'s own lists, with the documented defaults for cut-off and multipliers), FRESH name, FREEZE (perform_optimisation: objective = +-variable, one solve, then variable >= / <= the achieved value), generous / greedy visit exactly ranks R..cut / 1..min(cut,R); LP_Solver.run adds the load-balancing constraints (deviation variable >= |load - target|) whenever one of lmb / lsb / mincostlsb is requested and dispatches every requested criterion to its function.  The set-level step is machine-checked over an uninterpreted sort of valuations (lemma C03/freeze-opt): from LINK, T3 (the solver reports an optimum of the linked program) and FREEZE, the program after the criterion has exactly the optimal part of the linked program as solutions, non-empty; and, GIVEN witness-in-bounds (every feasible valuation has its measure within the declared bounds of the objective variable - proved for all nine criteria and the deviation variables, see C02), exactly the feasible valuations optimal for the documented measure.  Reading the function postconditions as instances of the lemma\'s hypotheses (F := feas() before the criterion, as a set of valuations) is by inspection',
    harness=True, bound='<= 4 students x <= 3 projects x <= 3 lecturers, one random criterion with random extras, real CBC',
    budget={'quick': 25, 'thorough': 300}, trusted=T_LP,
    assumptions=['by inspection: the criteria postconditions (LINK, FREEZE, witness-in-bounds) are instances of the hypotheses of C03/freeze-opt', 'FLAT/sum assumed (T11: chain.from_iterable concatenates)', 'measures are stated over project_lists / lecturer_lists / rank_lists (ModelWF agreement: bounded)'])
PROPS['C04'] = dict(
    title='Several criteria compose lexicographically in the user-given order',
    functions=[LP + 'run', LP + 'run_optimisations', LP + 'perform_optimisation', LP + 'loadbalancing_constraints', (OPP + 'parse', {'argparse_py': True}), OPP + '_get_ordered_optimisations'],
    lemmas=['C16/occupy-step', 'C16/chain', 'C16/all-first', 'C16/pigeonhole', 'C03/freeze-opt', 'C04/lex-chain'], level='proof',
    level_text='run_optimisations dispatches the criteria in list order (loop invariant over the symbolic list), each by its contract, stops after the first solve that is not Optimal, and never removes a constraint; perform_optimisation freezes each achieved value; Options_parser.parse puts every requested criterion at index = number of requested criteria with a smaller position (C16).  The set-level conclusion is machine-checked (lemma C04/lex-chain over an uninterpreted sort of valuations): optimising m2 over the optimal part for m1 gives the lexicographic optimum of (m1, m2), and no later criterion worsens an earlier value; its hypotheses are instances of C03/freeze-opt\'s conclusion, read off the contracts by inspection',
    harness=True, bound='<= 4 students x <= 3 projects x <= 3 lecturers, 2-3 random criteria, real CBC',
    budget={'quick': 25, 'thorough': 300}, trusted=T_LP + ['T9 argparse'],
    assumptions=['by inspection: the contracts are instances of the hypotheses of the set-level lemmas (witness-in-bounds per criterion is proved under C02)'])
PROPS['C05'] = dict(
    title='With stability requested the solver searches exactly the stable matchings',
    functions=[LP + 'stability_constraints', MOD + 'set_lecturer_lists', MOD + 'pulp_setup'],
    lemmas=['C05/prefix-filter', 'SUM/le', 'SUM/squeeze', 'SUM/ext', 'SUM/nonneg', 'SUM/term-le', 'C05/no-blocking-iff', 'C05/alpha-beta-gamma', 'C05/stable-iff-constraints',
            'LISTSET/empty-append', 'LISTSET/iterate'], level='proof',
    level_text=EXACT + 'stability_constraints adds, for every acceptable pair p of every student, exactly: -d_k*alpha_p + (sum over l_k\'s list of the variables of other students ranked at least as well as s_i) >= 0, the same with -c_j*beta_p restricted to p_j, and (1 - sum of s_i\'s variables at rank <= rank(p)) - alpha_p - beta_p <= 0 (while-loop prefix = rank filter by lemma C05/prefix-filter on sorted rows).  Lemma C05/stable-iff-constraints (18 obligations) then proves for every acceptable pair p of every valid 0/1 valuation: these three constraints admit 0/1 values of alpha_p, beta_p  <=>  (s_i holds a pair at rank <= rank(p), or Lk >= d_k, or Pj >= c_j)  <=>  p does NOT block the matching {q : nu(q) = 1}, where "blocks" is written in pair space exactly as in the property statement (loads = sums over all pairs of that project / lecturer; worse assignee; lecturer already supervises the student).  Its ingredients are all machine-checked: the lecturer lists\' sum identity for every weight (set_lecturer_lists), instantiated with nu and with nu restricted to p\'s project; the lists\' element sets; the logical cores C05/no-blocking-iff (sum-squeeze) and C05/alpha-beta-gamma; wrong variants of the blocking definition (3b without "already supervises", >= instead of >, 3c without the worse assignee) are refuted by the same lemma',
    harness=True, bound='<= 4 students x <= 3 projects x <= 3 lecturers, two-sided, -stab with 0-1 criteria, real CBC; all stable matchings enumerated',
    budget={'quick': 25, 'thorough': 300}, trusted=T_LP,
    assumptions=['by inspection: the three inequalities of the lemma are the text of stability_constraints\' postcondition (same sums, self.model written m)',
                 'alpha / beta variables of different pairs are different LP variables (pulp_setup names them by student and project number), so "every pair has values" and "one valuation has all values" coincide; a student does not list one project twice',
                 'the valuation is 0/1 on the pair variables, every row sums to at most 1 and the capacities are respected: these are the matching constraints (C01 chain)',
                 'the model at solve time is the one the reader built (lecturer lists as set_lecturer_lists left them)'])
PROPS['C14'] = dict(
    title='A run that was cut short or proved infeasible never presents a matching',
    functions=[LP + 'perform_optimisation', LP + 'optimisation_generous', LP + 'optimisation_greedy', LP + 'run_optimisations', LP + 'run', 'solver:Solver.solve', MOD + 'get_results',
               'solver:Solver.get_results_short', 'solver:Solver.get_results_long', MOD + '_get_pair_assignments'],
    lemmas=['SUM/ext'], level='other',
    level_text='the outcome of every prob.solve is arbitrary (any status code, any reported values; ghost history hist): proved for every number and kind of fault and every criteria sequence: after a solve whose status is not Optimal no further solve happens (generous / greedy per-rank loops, run_optimisations), run returns the status of the last = first failing solve, and Model.get_results shows a matching or statistics only when the stored status is Optimal and no timeout applies, the Timeout line exactly when a limit is set and the status is Not Solved or the elapsed time exceeds the limit, otherwise the stored status; Solver.solve stores exactly the status returned by run (= the status of the last solve) and the time limit in the model, and the Solver-level getters hand the model\'s text through with these guarantees.  NOT proved deductively (bounded stand-in): the clock axiom T4 for time-limit stops with an incumbent',
    harness=True, bound='<= 4 students x <= 3 projects x <= 3 lecturers, 0-3 criteria, fault at solve number 0..4, 4-5 kinds, transient / persistent, pairs of faults',
    budget={'quick': 30, 'thorough': 400},
    trusted=T_LP + ['T4 clock axiom: a time-limit stop consumes at least timeLimit seconds (harness advances a fake clock)', 'T12 datetimes modelled as seconds'],
    assumptions=['datetime.now() is an arbitrary real (nothing assumed about successive readings)'])
PROPS['C11'] = dict(
    title='Printed statistics and listings describe the printed matching',
    functions=[MOD + f for f in ('_get_max_rank', '_get_cost', '_get_cost_sq', '_get_degree', '_get_profile', '_get_lec_abs_diffs', '_get_max_lec_abs_diff',
                                 '_get_sum_lec_abs_diff', '_get_matching_string', '_get_matching_size', '_get_pair_assignments', 'get_results', '_get_detailed_student_info', '_get_detailed_project_info', '_get_detailed_lecturer_info', '_get_profile_string')],
    lemmas=['SUM/ext', 'LISTSET/empty-append', 'LISTSET/iterate'], level='other',
    level_text='statistic helpers verified against the measures of the property statement for every list of matched pairs (sums, counts per rank / lecturer, maxima with witnesses; lecturer cost 0 when a pair has no lecturer rank); the matching line has one blank-separated entry per student = project of that student\'s matched pair or 0; Model.get_results prints size / cost / degree equal to the helper results for the list read back from the solution, in both formats.  NOT proved deductively (bounded stand-in): the exact text layout of the profile string and of the three long-format listings (_get_profile_string and _get_detailed_* are modelled as pure text functions)',
    harness=True, bound='<= 4 students x <= 3 projects x <= 3 lecturers, 0-2 criteria, short and long format',
    budget={'quick': 20, 'thorough': 300},
    trusted=['T3 reported values are integral', 'T5/T6 str(int) name model'],
    assumptions=['long format: all three listings are verified for every list of matched pairs: one line per student / project / lecturer in order; a student line shows the student, project and lecturer numbers of that student\'s matched pair or "no assignment"; a project line names the project and its lecturer, then exactly one token s_<student> per pair assigned to that project (each assignee appears, nothing else does) or "no assignment", then occupancy = the number of such pairs and the upper quota; a lecturer line likewise with s_<student> (p_<project>) token pairs, occupancy, upper quota and target; the profile line is "<", one number per rank in rank order, ">" (callers print that function\'s result: composition by function identity)', 'listing view of a text (pyvc/models_text.py): blank-separated tokens of the shapes prefix + number + suffix; "3/5" is seen as the two numbers 3, 5; exact spacing and the order of the assignees within a line are outside the contract (bounded stand-in)'])
PROPS['C10'] = dict(
    title='The solver reads an instance file as the instance the file denotes',
    functions=[FIO + '_get_simple_pref_list_and_ranks', FIO + '_create_pairs_row', FIO + '_create_student_ranks', FIO + '_set_lecturers', FIO + '_set_lecturer_ranks',
               FIO + '_import_from_file', FIO + 'import_model', MOD + 'set_project_lists', MOD + 'set_lecturer_lists', MOD + 'set_rank_lists', MOD + '_get_max_rank'],
    lemmas=['C13/writer-shape', 'LISTSET/empty-append', 'LISTSET/iterate', 'SUM/ext', 'C10/derived-lists-compose', 'C10/dense-ranks-sorted', 'C10/reader-rows-sorted', 'C10/dense-ranks-bounded', 'C10/reader-student-ranks-bounded'], level='other',
    level_text='proved for all list lengths / instance sizes: the tie-aware tokeniser (values in order, dense ranks following the tie groups), the construction of a student\'s row of fresh Pair objects, the per-lecturer rank dictionary, the assignment of lecturers and lecturer ranks to every pair, and the derived project / lecturer / rank lists (each holds exactly the pairs of that project / lecturer / rank - as element sets and, for project and lecturer lists, as a sum identity for every weight, so no pair is listed twice; one rank list per rank up to the maximum); composition lemma: these postconditions are what Solver.solve requires of the derived lists.  _import_from_file itself over a file model (a list of lines, each a list of tokens; a colon ends a field): for every file whose lines have the documented shape it never raises; line 0 gives the counts; lines 1..NS become the rows (one fresh pair per token, written numbers, dense tie ranks); the next NP lines the project quotas and lecturers; with three agent types the next NL lines the lecturer quotas; in a 2-agent file project j is offered by lecturer j with the same lower quota and target = upper quota = the project\'s upper quota; anything after the last section is ignored; the rank dictionary has exactly the (lecturer, listed student) keys, so every pair finds its lecturer rank; the result satisfies sizes_ok and pairs_ok, and import_model adds the three derived lists; composition lemmas: the rows read from a file are sorted by rank (the rows_sorted precondition of the stability constraints) and a student rank never exceeds the number of projects when no list is longer than that (the ranks-bounded precondition of the cost criteria).  NOT proved deductively (bounded stand-in): the character-level lexer (T7: replace / split), i.e. that a text line denotes its token list',
    harness=True, bound='<= 13 agents per side (two-digit numbers inside tie groups), 2-/3-agent, +-twopl, +-trailing block, extra blanks',
    budget={'quick': 20, 'thorough': 300},
    trusted=[T['T6'], T['T7'], 'T8 a file reads back as its lines in order'],
    assumptions=['documented file format as precondition: header counts plain and non-negative, every section line present with its numeric fields plain, preference lists well-bracketed, ranked project numbers and project lecturers in range, and (with -twopl) whoever ranks a project is ranked by the lecturer offering it (C12 for generated files)', 'token strings abstracted through the shape table; lines as token lists (T7 / T8)'])
PROPS['C08'] = dict(
    title='Generated files are well-formed instances of the requested type and parameters',
    functions=[GS + 'create_quotas', SPA + 'create_project_lecturers', GS + 'create_ties_indicators', GS + 'create_pref_lists_original', GS + 'create_linear_distribution',
               GS + 'create_string_pref', SPA + 'generate_instances', 'generator_ha_sm_hr:Generator_ha_sm_hr.generate_instances', SPA + 'create_instance', 'generator_ha_sm_hr:Generator_ha_sm_hr.create_instance'] + [(IOP + 'parse', {'argv_fixed': {'matchingproblem': mp}}) for mp in ('ha', 'sm', 'hr', 'spa')] + [GEN_INIT(mp) for mp in ('ha', 'sm', 'hr', 'spa')],
    lemmas=['C08/shares', 'C08/spread-monotone', 'C17/sum-positive', 'C17/scaled-sum', 'C13/writer-shape', 'LISTSET/empty-append', 'LISTSET/permute', 'LISTSET/iterate'], level='other',
    level_text='proved for all parameters: quotas / targets / projects per lecturer are the even spreading (share k = total // n + [k < total % n]: larger shares first, spread <= 1, sum = total, monotone in the total hence lower <= target <= upper pointwise); first-side lists have between pmin and pmax distinct agents in range and the RNG preconditions hold (positive weights summing to one, k <= n2); tie indicators are 0 / 1 and constant for probability 0 / 1; the tie writer brackets maximal runs; every accepted argument vector satisfies the bounds the generators rely on (parse postconditions, all four types).  generate_instances (both generators) is verified as wiring: every callee precondition holds (so it never raises before writing), and create_instance is called with first-side lists of distinct in-range agents, tie flags of the same shape, one in-range lecturer per project, quotas with 0 <= lower <= (target <=) upper pointwise (spreading lemmas) and second-side lists as in C12.  NOT proved deductively (bounded stand-in): the text assembly inside create_instance (both generators), file names 0..k-1 and "every length in [pmin,pmax] can occur" (T10)',
    harness=True, bound='n <= 6 agents per side, numinst <= 2, tie probabilities {0, 0.3/0.4, 1}, skew {0.5, 1, 3, 10}',
    budget={'quick': 20, 'thorough': 300},
    trusted=['T10 numpy / random: randint in [a,b), choice(replace=False) returns distinct elements of its argument, choice never returns a value of probability 0, shuffle permutes, np.sum / array division as documented',
             'T8 file I/O', 'T9 argparse', 'int(a / b) == a // b for a + b < 2**53 (DESIGN 3.1)'],
    assumptions=['create_instance is verified over the lexical view of its text (lines of blank-separated tokens; a colon is deleted by the reader; T7): header with the counts, one numbered line per agent carrying exactly the numbers / bracketed list handed over, second-side lists only when given, blank line, parameter block; generate_instances writes exactly numberinstances files, write number u to <outputdirectory>/<u>.txt opened for writing, each holding the text create_instance returned for that iteration with the requested counts in its header (ghost log of file writes, T8); the content of the parameter block (create_instance_info) is covered by the bounded stand-in only', 'generate_instances is verified for argument records satisfying its stated precondition; Generator.__init__ (parser inlined) proves that precondition at the call site for every accepted argument vector with a positive skew'])
GETTER_HELPERS = ['_get_max_rank', '_get_cost', '_get_cost_sq', '_get_degree', '_get_profile', '_get_lec_abs_diffs', '_get_max_lec_abs_diff', '_get_sum_lec_abs_diff',
                  '_get_matching_string', '_get_matching_size', '_get_pair_assignments', '_get_pair_assignments_with_none', 'get_results', 'get_debug', '_pairs_string',
                  'check_stability', 'get_num_assignments_projects', 'get_num_assignments_lecturers', 'get_worst_rank_projects', 'get_worst_rank_lecturers',
                  '_get_detailed_student_info', '_get_detailed_project_info', '_get_detailed_lecturer_info', '_get_profile_string']
PROPS['C18'] = dict(
    title='Result getters are read-only and re-solving is reproducible',
    functions=[(MOD + f, {'force_pure': True}) for f in GETTER_HELPERS] + [(BF + 'get_results', {'force_pure': True})] + [('solver:Solver.' + f, {'force_pure': True}) for f in ('get_results_short', 'get_results_long', 'get_debug')]
              + ['solver:Solver.solve', MOD + 'pulp_setup', LP + 'run', LP + 'run_optimisations'] + CRIT_FUNCS,
    lemmas=['SUM/ext'], level='other',
    level_text='the LP run and every criterion leave the stored option lists untouched (list parameters unchanged: frame/param-*), so a second solve sees the same criteria and extras; frame obligations for Model.get_results (short and long), Model.get_debug, Brute_force_solver.get_results and every helper they call: at every return, every field of every object, every Pair attribute array and the ghost LP state (constraints, reported values, status, solve history) equal their values at entry, and no helper calls a nondeterministic external, so any interleaving of getters returns equal text; get_debug does not raise after a solve in either mode; the Solver-level getters are read-only as well; every Solver.solve builds a NEW problem (no constraint, no used objective-variable name survives from an earlier solve) and recreates every variable by name from the unchanged instance, so the second program is the first one.  NOT proved deductively (bounded stand-in): reproducibility of the status and criterion values of a second solve (follows from C02-C04 given a fresh problem); decided for timeLimit=None only',
    harness=True, bound='<= 4 students x <= 3 projects x <= 3 lecturers, LP (0-2 criteria, -pc, -stab) and brute force, call sequences of length <= 7',
    budget={'quick': 25, 'thorough': 300},
    trusted=T_LP + ['T12 strftime is a pure function of the stored start time'],
    assumptions=['with a time limit the status line depends on the wall clock, which no contract models', 'CBC determinism for equal programs (T3)'])
PROPS['C09'] = dict(
    title='Every generated instance is solvable by the solver under the documented flags',
    functions=[GS + 'create_string_pref', FIO + '_get_simple_pref_list_and_ranks', GS + 'create_quotas', SPA + 'create_project_lecturers',
               GS + 'create_pref_lists_from_other_lists', SPA + 'create_student_lec_lists', FIO + '_set_lecturers', FIO + '_set_lecturer_ranks', FIO + '_create_pairs_row',
               LP + 'upper_lower_constraints', LP + 'stability_constraints', MOD + 'check_stability', BF + 'is_valid', SPA + 'generate_instances', 'generator_ha_sm_hr:Generator_ha_sm_hr.generate_instances', SPA + 'create_instance', 'generator_ha_sm_hr:Generator_ha_sm_hr.create_instance', FIO + '_import_from_file', FIO + 'import_model'],
    lemmas=['C05/prefix-filter', 'C13/compose', 'C12/spa-compose', 'C09/rank-keys', 'C09/quota-order', 'C08/shares', 'C08/spread-monotone', 'C09/written-file-is-readable-2', 'C09/written-file-is-readable-3', 'C09/read-back-is-what-was-generated-2', 'C09/read-back-is-what-was-generated-3'], level='other',
    level_text='composition obligations between the generator-side and reader-side contracts, each proved for all sizes: the tie writer\'s postcondition is the tie reader\'s precondition (C13/compose); generated quotas satisfy 0 <= lower <= target <= upper pointwise (C09/quota-order from the spreading lemmas and the accepted-argument postcondition); project lecturers are in range; every (lecturer, student) key the reader looks up is on that lecturer\'s generated list (C09/rank-keys from C12/spa-compose).  both generate_instances functions hand the writer a well-formed instance, and _import_from_file / import_model read every file of the documented shape without error into a well-formed model (sizes_ok, pairs_ok, derived lists).  NOT proved deductively (bounded stand-in): the two ends of the text layer (create_instance turning its lists into lines; a text line denoting its tokens, T7), and that both solving modes are correct on the loaded instance (C01-C07 instantiated)',
    harness=True, bound='n <= 4 agents per side, all four types, LP with 0-2 criteria (+-pc, +-stab) and brute force on every generated file',
    budget={'quick': 30, 'thorough': 400},
    trusted=[T['T6'], T['T7'], 'T8 file I/O', 'T10 RNG'],
    assumptions=['writer -> reader is machine-checked at the level of lines of tokens: both create_instance functions are verified over the lexical view of the text they assemble, and lemmas C09/written-file-is-readable-2 / -3 prove every clause of the reader\'s precondition (the documented file format) from the writer\'s pre- and postcondition under -na 2 / -na 3 and -twopl iff second-side lists were written; lemmas C09/read-back-is-what-was-generated-2 / -3 prove that the model the reader returns for that text holds exactly the lists, tie groups, quotas, targets and project lecturers handed to the writer; T8 (the file reads back as the written lines) and the ghost tie decisions are modelling steps of those lemmas, the definition of elems is used in both directions',
                 'T7 the character level (a line denotes its tokens) and end-to-end solving of the read model (= C01-C07 instantiated): bounded stand-in only'])
NOT_APPLICABLE = {}
NOTES = 'see DESIGN.md; ./check Cxx --tier quick|thorough; exit 0 held / 1 VIOLATION / 2 undecided / 3 checker error'
