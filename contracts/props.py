"""Property registry: which functions / lemmas decide each property, the bounded stand-in, the trusted base."""
GS = 'generator_shared:'; FIO = 'fileIO:'

T = {
 'T5': 'T5 name model: names built from literals and str(int) are equal iff pieces and integers are equal',
 'T6': 'T6 str/int: int(str(n)) = n for n >= 0; str(n) contains no parenthesis, colon or blank',
 'T7': 'T7 lexical layer: split()/join behave as documented on blank-free tokens',
}

PROPS = {
 'C13': dict(
    title='Ties written by the generator are read back as the same ties by the solver',
    functions=[GS + 'create_string_pref', FIO + '_get_simple_pref_list_and_ranks'],
    lemmas=['C13/writer-shape', 'C13/compose'],
    level_text='writer and reader verified for every list length and every tie-decision vector by loop invariants (no bound); composition lemma proves the property statement from the two postconditions',
    harness=True, bound='list length <= 8 (quick) / 12 (thorough), all 2^n decision vectors',
    trusted=[T['T6'], T['T7']],
    assumptions=['token strings are abstracted through the shape table Plain n | Open "(n" | Close "n)" (characters are T6/T7)',
                 'Python int is unbounded; list displays do not alias']),
}

PROPS['C17'] = dict(
    title='Popularity skew is linear with the requested ratio',
    functions=[GS + 'create_linear_distribution'],
    lemmas=['C17/sum-positive', 'C17/scaled-sum'],
    level_text='postcondition (positive, sums to one, arithmetic progression, last = skew*first, n=1 gives [1]) proved over the reals for every n >= 1 and skew > 0 by a loop invariant and two induction lemmas; floating-point rounding is outside the contract and only covered by the labelled bounded grid check',
    harness=True, bound='n <= 40 (quick) / 200 (thorough), 18 fixed skews + seeded random skews; tolerance 1e-9 relative',
    trusted=['T10 numpy: np.sum is the mathematical sum; array / scalar divides elementwise',
             'float treated as mathematical real (DESIGN 3.1); induction principle of the lemma engine'],
    assumptions=['floating point idealised as reals; the bounded grid check is the only evidence about rounding',
                 'Python int is unbounded'])
SPA = 'generator_spa:Generator_spa.'
PROPS['C12'] = dict(
    title='Second-side lists rank exactly the agents that find them acceptable',
    functions=[GS + 'create_pref_lists_from_other_lists', SPA + 'create_student_lec_lists', GS + 'create_ties_indicators'],
    lemmas=['C12/spa-compose', 'LISTSET/empty-append', 'LISTSET/permute', 'LISTSET/iterate'],
    level_text='both inversion functions verified for all list shapes by loop invariants over the element-set view of lists (exactly-once = duplicate-free + membership iff); SPA composition lemma proves the lecturer statement; the list-set fact schemas are themselves proved from the definitions',
    harness=True, bound='<= 5 agents per side, <= 6 projects, <= 4 lecturers; whole generator runs n <= 6',
    trusted=['T10 random.shuffle permutes its argument in place; np.random.choice returns values of positive probability',
             'T10 np.random.choice(replace=False) returns distinct elements (precondition first-side-lists-duplicate-free)',
             'call sites in generate_instances (which list is passed where) are covered by C08 contracts / the bounded generator runs'],
    assumptions=['list-set view: facts instantiated by the engine at append/empty/shuffle/iteration, each justified by a LISTSET lemma',
                 'Python int is unbounded; list displays do not alias; the loop variable of `for x in lists: shuffle(x)` aliases the element (modelled)'])
IOP = 'instance_options_parser:Instance_options_parser.'
PROPS['C15'] = dict(
    title='Generator accepts every documented argument set and cleanly rejects invalid ones',
    functions=[(IOP + 'parse', {'argv_fixed': {'matchingproblem': mp}}) for mp in ('ha', 'sm', 'hr', 'spa')],
    lemmas=[],
    level_text='full-domain symbolic execution of Instance_options_parser.parse (helpers inlined, table loops unrolled exactly) per problem type, every other argument absent-or-any-value: returns normally iff Legal(args), otherwise SystemExit(2); every comparison with None is a safety obligation; complete for all integers / reals, no bound',
    harness=True, bound='legal base vectors with n <= 6 and all single-fault perturbations; quick 3 bases per type, thorough 40',
    trusted=['T9 argparse: parse_args yields typed values or the declared defaults (None / False) or exits with code 2; parser.error raises SystemExit(2); get_default returns the declared default',
             'float arguments treated as reals'],
    assumptions=['Legal(type, args) is transcribed from the README "require the following arguments" lists and the bound list in the property statement',
                 'Generator.__init__ ordering (parse before any output) and generate_instances are checked by C08 contracts and by the bounded runs (nothing written on rejection)'])
OPP = 'options_parser:Options_parser.'
PROPS['C16'] = dict(
    title='Criteria run in position order; invalid solver option sets are refused',
    functions=[OPP + '_get_ordered_optimisations', (OPP + 'parse', {'argparse_py': True})],
    lemmas=['C16/occupy-step', 'C16/pigeonhole'],
    level_text='full-domain symbolic execution of Options_parser.parse over the nine criterion slots (each absent | int | list of ints, any integers): refuses iff a position is outside 1..9, two positions coincide or -stab without -twopl; otherwise every requested criterion sits at index = number of requested criteria with a smaller position, with its own extras; literal-table loops unrolled exactly with state merging; staged counting lemma for "shared position <=> fewer occupied positions"',
    harness=True, bound='all position pairs over {absent,0,1,2,3,9,10} for every pair of criteria + seeded random option sets over all nine',
    trusted=['T9 argparse: optional int arguments are None or an int, nargs=+ arguments None or a non-empty list of ints; parser.error raises SystemExit(2)'],
    assumptions=['the reporting order of the "- optimisation:" lines (run_optimisations) is covered under C04/C14 contracts of lp_solver once built; here by the bounded runs only',
                 'Solver.__init__ calls parse before import_model (sequential code, checked by the bounded runs with a nonexistent file name)'])
MOD = 'model:Model.'
PROPS['C06'] = dict(
    title='Stability checker answers True exactly for matchings without a blocking pair',
    functions=[MOD + 'get_num_assignments_projects', MOD + 'get_num_assignments_lecturers', MOD + 'get_worst_rank_projects',
               MOD + 'get_worst_rank_lecturers', MOD + 'check_stability'],
    lemmas=[],
    level_text='check_stability verified against the SPA-STL blocking-pair definition for every instance size and every assignment list (entries None or a usable two-sided pair): result == not exists blocking pair, via search-loop invariants; the four helpers have count / worst-rank postconditions; every comparison with None is a safety obligation (always returns a boolean)',
    harness=True, bound='<= 3 students x <= 3 projects x <= 3 lecturers, all upper-quota-respecting assignments',
    trusted=['blocking() is transcribed from the property statement (conditions 2, 3a, 3b, 3c)'],
    assumptions=['precondition ModelWF (sizes_ok, pairs_ok, two_sided) is established by the reader (C10); the printed stability_correct line additionally relies on C05 (LP) contracts',
                 'Python int is unbounded'])
BF = 'brute_force_solver:Brute_force_solver.'
PROPS['C07'] = dict(
    title='Brute-force mode reports the exact optimum of every statistic it prints',
    functions=[BF + 'moregre', BF + 'moregen', BF + 'get_matching_pairs', BF + 'is_valid', BF + 'run', BF + 'get_results',
               MOD + '_get_max_rank', MOD + 'get_max_lec_upper_quota', MOD + '_get_cost', MOD + '_get_cost_sq', MOD + '_get_degree',
               MOD + '_get_profile', MOD + '_get_lec_abs_diffs', MOD + '_get_max_lec_abs_diff', MOD + '_get_sum_lec_abs_diff'],
    lemmas=[],
    level='other',
    level_text='proved for all instance sizes: comparators are the strict lexicographic orders (first / last difference); is_valid == Valid (incl. closure rule); get_matching_pairs; the statistic helpers == the measures; run never raises (every index, comparison and callee precondition), every profile has one entry per rank, optimal_size = -1 iff no enumerated assignment is valid and otherwise the maximum valid size; get_results prints Infeasible iff optimal_size = -1 and otherwise each stored optimum.  NOT proved (bounded stand-in only): that the stored cost / degree / profile / deviation values are the optima (fold invariants for those seven statistics are not written)',
    harness=True, bound='<= 3 students x <= 3 projects x <= 3 lecturers, +-pc, exhaustive optimum by enumeration',
    budget={'quick': 20, 'thorough': 240},
    trusted=['T11 itertools.product enumerates every tuple over range(m) once (completeness of the enumeration is assumed; the fold is proved over whatever it enumerates)',
             'T12 datetimes modelled as seconds; strftime opaque',
             '_get_profile_string modelled as a pure text function of the profile'],
    assumptions=['optimality of the seven secondary statistics is covered by the bounded stand-in only (labelled bounded)',
                 'ModelWF precondition from the reader (C10)'])
NOT_APPLICABLE = {}
NOTES = 'see DESIGN.md; ./check Cxx --tier quick|thorough; exit 0 held / 1 VIOLATION / 2 undecided / 3 checker error'
