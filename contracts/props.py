"""Property registry: which functions / lemmas decide each property, the bounded stand-in, the trusted base."""
GS = 'generator_shared:'; FIO = 'fileIO:'

T = {
 'T5': 'T5 name model: names built from literals and str(int) are equal iff pieces and integers are equal',
 'T6': 'T6 str/int: int(str(n)) = n for n >= 0; str(n) contains no parenthesis, colon or blank',
 'T7': 'T7 lexical layer: split()/join behave as documented on blank-free tokens',
}

PROPS = {
 'C13': dict(
    title='Ties written by the generator are read back as the same ties by the solver',
    functions=[GS + 'create_string_pref', FIO + '_get_simple_pref_list_and_ranks'],
    lemmas=['C13/writer-shape', 'C13/compose'],
    level_text='writer and reader verified for every list length and every tie-decision vector by loop invariants (no bound); composition lemma proves the property statement from the two postconditions',
    harness=True, bound='list length <= 8 (quick) / 12 (thorough), all 2^n decision vectors',
    trusted=[T['T6'], T['T7']],
    assumptions=['token strings are abstracted through the shape table Plain n | Open "(n" | Close "n)" (characters are T6/T7)',
                 'Python int is unbounded; list displays do not alias']),
}

PROPS['C17'] = dict(
    title='Popularity skew is linear with the requested ratio',
    functions=[GS + 'create_linear_distribution'],
    lemmas=['C17/sum-positive', 'C17/scaled-sum'],
    level_text='postcondition (positive, sums to one, arithmetic progression, last = skew*first, n=1 gives [1]) proved over the reals for every n >= 1 and skew > 0 by a loop invariant and two induction lemmas; floating-point rounding is outside the contract and only covered by the labelled bounded grid check',
    harness=True, bound='n <= 40 (quick) / 200 (thorough), 18 fixed skews + seeded random skews; tolerance 1e-9 relative',
    trusted=['T10 numpy: np.sum is the mathematical sum; array / scalar divides elementwise',
             'float treated as mathematical real (DESIGN 3.1); induction principle of the lemma engine'],
    assumptions=['floating point idealised as reals; the bounded grid check is the only evidence about rounding',
                 'Python int is unbounded'])
NOT_APPLICABLE = {}
NOTES = 'see DESIGN.md; ./check Cxx --tier quick|thorough; exit 0 held / 1 VIOLATION / 2 undecided / 3 checker error'
