"""Sidecar contracts for matchingproblems/solver/options_parser.py (C16, C04).
The nine criterion slots are a literal table, so its loops are unrolled exactly (complete, not a bound)."""
M = 'options_parser:Options_parser.'
N = 9
SLOT = ('tuple', ('py',), ('enumsym', 'Optimisation_options'))


def summ(terms): return '(' + ' + '.join('ite(%s, 1, 0)' % t for t in terms) + ')'


def slot_defs(A):
    """Vocabulary over nine slots whose argument value is A(s) (a spec expression)."""
    d = {}
    d['present'] = (['a'], 'not (a == None)')
    d['pos'] = (['a'], 'ite(is_list(a), py_head(a), py_int(a))')                 # the position number of a slot
    d['extras'] = (['a'], 'ite(is_list(a), py_tail(a), None)')                   # its optional extra arguments
    d['welltyped'] = (['a'], 'a == None or is_int(a) or (is_list(a) and py_len(a) >= 1)')      # plist is non-empty by construction
    d['occupied'] = (['i'], ' or '.join('(present(%s) and pos(%s) == i)' % (A(s), A(s)) for s in range(N)))
    d['n_present'] = ([], summ('present(%s)' % A(s) for s in range(N)))
    d['n_occupied'] = ([], summ('occupied(%d)' % i for i in range(1, N + 1)))
    # number of requested criteria with a smaller position number = index in the ordered result
    d['rank'] = (['q'], summ('occupied(%d) and %d < q' % (i, i) for i in range(1, N + 1)))
    d['in_range'] = ([], ' and '.join('implies(present(%s), 1 <= pos(%s) and pos(%s) <= %d)' % (A(s), A(s), A(s), N) for s in range(N)))
    d['distinct'] = ([], ' and '.join('implies(present(%s) and present(%s), pos(%s) != pos(%s))' % (A(s), A(u), A(s), A(u))
                                      for s in range(N) for u in range(s + 1, N)))
    # before(i): number of occupied positions smaller than the concrete position i
    for i in range(1, N + 1):
        d['before%d' % i] = ([], summ('occupied(%d)' % j for j in range(1, i)) if i > 1 else '0')
    # opt_at(i) / extras_at(i): criterion and extras of the last slot that asked for position i
    def chain(i, f):
        out = f(0)
        for s in range(1, N): out = 'ite(present(%s) and pos(%s) == %d, %s, %s)' % (A(s), A(s), i, f(s), out)
        return out
    d['_chain'] = chain
    for s in range(N):
        d['last%d' % s] = ([], ' and '.join(['True'] + ['not (present(%s) and pos(%s) == pos(%s))' % (A(u), A(u), A(s)) for u in range(s + 1, N)]))
    return d


OP = lambda s: 'opts[%d][0]' % s
_D = slot_defs(OP)
DESTS = ['maxsize', 'minsize', 'gen', 'gre', 'mincost', 'minsqcost', 'lmb', 'lsb', 'mincostlsb']
ENUMS = ['MAXSIZE', 'MINSIZE', 'GENEROUS', 'GREEDY', 'MINCOST', 'MINSQCOST', 'LOADMAXBAL', 'LOADSUMBAL', 'MINCOSTLSB']
GV = lambda s: "given('%s')" % DESTS[s]

CONTRACTS = {
 M + '_get_ordered_optimisations': dict(
    params={'opts': ('clist', SLOT, N)}, self_fields={},
    locals={'temp': ('list', 'crit')},          # symbolic-length list: the compaction loop's branches merge again
    defs={k: v for k, v in _D.items() if not k.startswith('_')}, stable_names=('opts',),
    state_independent=('present', 'pos', 'extras', 'welltyped', 'occupied', 'n_present', 'n_occupied', 'rank', 'in_range') + tuple('last%d' % s for s in range(N)) + tuple('before%d' % i for i in range(1, N + 1)),
    requires=[('well-typed', ' and '.join('welltyped(%s)' % OP(s) for s in range(N))),
              ('positions-in-range', 'in_range()')],
    # the compaction loop (second loop) is unrolled exactly; the cut proves "index = number of occupied smaller positions"
    # one position at a time
    loops={1: dict(cut=['len(temp) == rank(_k + 1)'] +
                       ['implies(%d <= _k and occupied(%d), temp[before%d()][0] == %s)' % (i, i, i, _D['_chain'](i, lambda s: 'opts[%d][1]' % s))
                        for i in range(1, N + 1)] +
                       ['implies(%d <= _k and occupied(%d), temp[before%d()][1] == %s)' % (i, i, i, _D['_chain'](i, lambda s: 'extras(%s)' % OP(s)))
                        for i in range(1, N + 1)])},
    returns=('tuple', ('list', 'crit'), 'int'),
    ensures=[('count', 'result1 == n_present()'),
             ('one-entry-per-occupied-position', 'len(result0) == n_occupied()')] +
            # position i, when occupied, is found at index before(i) and carries the criterion and extras of the last
            # slot that asked for it (slots are scanned in table order, later ones overwrite)
            [('position%d-at-index-before' % i,
              'implies(occupied(%d), result0[before%d()][0] == %s and result0[before%d()][1] == %s)'
              % (i, i, _D['_chain'](i, lambda s: 'opts[%d][1]' % s), i, _D['_chain'](i, lambda s: 'extras(%s)' % OP(s)))) for i in range(1, N + 1)]),

 M + '_create_arg_parser': dict(inline=True),
 M + '_get_instance_options': dict(inline=True),
 M + '_get_solver_options': dict(inline=True),
 M + '_get_extra_constraints': dict(inline=True),
 M + '_get_optimisation_tuples': dict(inline=True),
 M + '_stability_requirements_check': dict(inline=True),
 M + '_get_and_check_orderings': dict(inline=True),

 # C16: refusal conditions and position order.  given('x') = what argparse produced for x.
 M + 'parse': dict(
    params={'arguments': ('ext', 'argv')}, self_fields={},
    defs=dict({k: v for k, v in slot_defs(GV).items() if not k.startswith('_')}, admissible=([], "in_range() and distinct() and implies(given('stab'), given('twopl'))")),
    state_independent=('admissible', 'in_range', 'distinct', 'n_present', 'n_occupied', 'present', 'pos', 'extras', 'rank', 'occupied'),
    use_lemmas={a: [('C16/pigeonhole', dict([('p%d' % s, 'present(%s)' % GV(s)) for s in range(N)] + [('q%d' % s, 'pos(%s)' % GV(s)) for s in range(N)]), 'if-applicable')]
                for a in ('return', 'exit')},
    ensures=[('accepts-only-admissible', 'admissible()'),
             ('every-requested-criterion-listed-once', 'len(self.optimisation_options) == n_present()')] +
            [('%s-at-position-rank-with-its-extras' % DESTS[s],
              "implies(present(%s), self.optimisation_options[rank(pos(%s))][0] == Optimisation_options.%s"
              " and self.optimisation_options[rank(pos(%s))][1] == extras(%s))" % (GV(s), GV(s), ENUMS[s], GV(s), GV(s))) for s in range(N)] +
            [('options-recorded', "self.instance_options[Instance_options.TWOPL] == given('twopl') and self.instance_options[Instance_options.PC] == given('pc')"
                                  " and self.instance_options[Instance_options.NUMAGENTS] == given('numagents')"
                                  " and self.extra_constraints[Extra_constraints.STAB] == given('stab')"
                                  " and self.solver_options[Solver_options.BRUTEFORCE] == given('bruteforce')")],
    exits=[('refuses-only-inadmissible', 'not admissible()')]),
}
